package main

import (
	"fmt"
	"go/types"

	"golang.org/x/tools/go/ssa"
)

// Value is one of:
//   *Term      scalar integer / bool
//   *Float     constant float (no symbolic floats)
//   *Struct    struct value (immutable)
//   *Array     array of non-byte elements (immutable)
//   *Bytes     array of bytes: SMT array + length term (immutable)
//   *Slice     slice header
//   *String    string value
//   *Pointer   pointer (nil when O == nil)
//   *Iface     interface value (nil interface when T == nil)
//   *Closure   function value with free variables
//   *ssa.Function, *ssa.Builtin, *Native
//   *MapObj, *ChanObj   reference types (nil allowed via typed nil pointers)
//   Tuple
type Value interface{}

type Float struct{ F float64 }

type Struct struct{ F []Value }

type Array struct {
	E []Value
	Z Value // zero element for lazily materialised (slice backing) arrays; nil for fixed arrays
}

type Bytes struct {
	A *Term // Array sort
	N *Term // BV64 length
}

type Object struct {
	id   int
	V    Value
	T    types.Type
	Name string
	init bool // allocated during package initialisation
	snap Value // value after initialisation (restored at the start of every path)
}

type Pointer struct {
	O    *Object
	Path []int
	Sym  *Term // optional symbolic byte index (last step, into a *Bytes)
}

var NilPtr = &Pointer{}

func (p *Pointer) IsNil() bool { return p == nil || p.O == nil }

type Slice struct {
	P   *Pointer // points to an *Array or *Bytes container; nil slice when P == nil
	Off *Term    // BV64 element offset into the container
	Len *Term    // BV64
	Cap *Term    // BV64
}

type String struct {
	Conc bool
	S    string
	A    *Term // Array sort when !Conc
	Off  *Term
	Len  *Term
}

func ConcStr(s string) *String { return &String{Conc: true, S: s} }

func (s *String) LenTerm() *Term {
	if s.Conc {
		return I64C(int64(len(s.S)))
	}
	return s.Len
}

// arr returns (array, offset) holding the bytes of s.
func (s *String) arr() (*Term, *Term) {
	if !s.Conc {
		return s.A, s.Off
	}
	a := ZeroArr
	for i := 0; i < len(s.S); i++ {
		a = Store(a, I64C(int64(i)), BVC(8, uint64(s.S[i])))
	}
	return a, I64C(0)
}

func (s *String) byteAt(i *Term) *Term {
	if s.Conc && i.IsConst() {
		return BVC(8, uint64(s.S[i.Val]))
	}
	a, off := s.arr()
	return Select(a, BVBin("bvadd", off, i))
}

type Iface struct {
	T types.Type
	V Value
}

var NilIface = &Iface{}

type Closure struct {
	Fn  *ssa.Function
	Env []Value
}

// Native is an engine-implemented function value.
type Native struct {
	Name string
	Fn   func(e *Engine, g *G, args []Value) Value
}

type mapEntry struct {
	K, V Value
}

type MapObj struct {
	id      int
	Entries []mapEntry
	T       *types.Map
	init    bool
	snap    []mapEntry
}

type ChanObj struct {
	id     int
	Cap    int
	Buf    []Value
	Closed bool
	T      types.Type
	sendq  []*G
	recvq  []*G
	init   bool
	never  bool // model channel that never becomes ready (timers)
}

type Tuple []Value

// ---- type helpers ----

func isByteType(t types.Type) bool {
	b, ok := t.Underlying().(*types.Basic)
	return ok && (b.Kind() == types.Uint8)
}

func intWidth(b *types.Basic) (w int, signed bool, ok bool) {
	switch b.Kind() {
	case types.Int8:
		return 8, true, true
	case types.Int16:
		return 16, true, true
	case types.Int32:
		return 32, true, true
	case types.Int64, types.Int, types.UntypedInt, types.UntypedRune:
		return 64, true, true
	case types.Uint8:
		return 8, false, true
	case types.Uint16:
		return 16, false, true
	case types.Uint32:
		return 32, false, true
	case types.Uint64, types.Uint, types.Uintptr:
		return 64, false, true
	}
	return 0, false, false
}

func typeIntInfo(t types.Type) (w int, signed bool, ok bool) {
	if tp, isTP := t.(*types.TypeParam); isTP {
		t = tp.Underlying()
	}
	b, isB := t.Underlying().(*types.Basic)
	if !isB {
		return 0, false, false
	}
	return intWidth(b)
}

func isFloatType(t types.Type) bool {
	b, ok := t.Underlying().(*types.Basic)
	return ok && b.Info()&types.IsFloat != 0
}

func isStringType(t types.Type) bool {
	b, ok := t.Underlying().(*types.Basic)
	return ok && b.Info()&types.IsString != 0
}

func isBoolType(t types.Type) bool {
	b, ok := t.Underlying().(*types.Basic)
	return ok && b.Info()&types.IsBoolean != 0
}

// zero returns the zero value of t.
func zero(t types.Type) Value {
	switch u := t.Underlying().(type) {
	case *types.Basic:
		if u.Info()&types.IsBoolean != 0 {
			return TFalse
		}
		if u.Info()&types.IsString != 0 {
			return ConcStr("")
		}
		if u.Info()&types.IsFloat != 0 {
			return &Float{0}
		}
		if u.Kind() == types.UnsafePointer {
			return NilPtr
		}
		if w, _, ok := intWidth(u); ok {
			return BVC(w, 0)
		}
		if u.Kind() == types.UntypedNil {
			return NilPtr
		}
		if u.Info()&types.IsComplex != 0 {
			return &Float{0}
		}
		panic(fmt.Sprintf("zero: basic %v", u))
	case *types.Struct:
		f := make([]Value, u.NumFields())
		for i := range f {
			f[i] = zero(u.Field(i).Type())
		}
		return &Struct{f}
	case *types.Array:
		if isByteType(u.Elem()) {
			return &Bytes{ZeroArr, I64C(u.Len())}
		}
		e := make([]Value, u.Len())
		if u.Len() > 0 {
			z := zero(u.Elem())
			for i := range e {
				e[i] = z
			}
		}
		return &Array{E: e}
	case *types.Slice:
		return &Slice{Off: I64C(0), Len: I64C(0), Cap: I64C(0)}
	case *types.Pointer:
		return NilPtr
	case *types.Interface:
		return NilIface
	case *types.Map:
		return (*MapObj)(nil)
	case *types.Chan:
		return (*ChanObj)(nil)
	case *types.Signature:
		return (*Closure)(nil)
	case *types.Tuple:
		tv := make(Tuple, u.Len())
		for i := range tv {
			tv[i] = zero(u.At(i).Type())
		}
		return tv
	}
	panic(fmt.Sprintf("zero: unsupported type %v (%T)", t, t.Underlying()))
}

func isNilFunc(v Value) bool {
	switch f := v.(type) {
	case *Closure:
		return f == nil
	case *ssa.Function:
		return f == nil
	case *Native:
		return f == nil
	case nil:
		return true
	}
	return false
}

func describe(v Value) string {
	switch x := v.(type) {
	case *Term:
		s := x.String()
		if len(s) > 80 {
			s = s[:80] + "..."
		}
		return s
	case *String:
		if x.Conc {
			return fmt.Sprintf("%q", x.S)
		}
		return "<symstring>"
	case *Pointer:
		if x.IsNil() {
			return "nil"
		}
		return fmt.Sprintf("&obj%d%v", x.O.id, x.Path)
	case *Iface:
		if x.T == nil {
			return "nil-iface"
		}
		return fmt.Sprintf("iface(%v)", x.T)
	}
	return fmt.Sprintf("%T", v)
}
