package main

// Solver front end.
//
// Main solver: one incremental `z3 -in` process driven with SMT-LIB2 text and
// push/pop (one level per path decision). Shared sub-terms are introduced with
// define-fun so a term DAG is never printed as a tree.
//
// Most queries are answered by the incremental solver in under a millisecond,
// but its core is an order of magnitude slower than z3's tactic-based solver
// on the hard bit-vector queries. A query that is not answered within quickMs
// is therefore abandoned (the process is killed and its context rebuilt
// lazily) and decided from scratch by a portfolio of non-incremental solver
// processes (z3 4.8.12 and z3 5.1.0 have very different heavy tails); the
// first definite answer wins.
//
// Any `(error` line or `unknown` answer is surfaced to the caller, who treats
// it as inconclusive.

import (
	"bufio"
	"fmt"
	"io"
	"os"
	"os/exec"
	"strconv"
	"strings"
	"time"
)

type proc struct {
	cmd   *exec.Cmd
	in    io.WriteCloser
	lines chan string
	bin   string
	busy  chan struct{} // non-nil while a portfolio query is outstanding; closed when the process is idle and clean again
	dirty bool          // answered with an error or timed out: output stream may hold stale lines
}

// solverCommand maps a portfolio member name to its command line and to the
// script prefix it needs after (reset).
func solverCommand(name string, timeoutMs int) (bin string, args []string, prefix string) {
	switch name {
	case "cvc5int":
		// integer encoding of bit-vectors (keeps mod 2^k semantics): decides in
		// a fraction of a second the 64-bit linear-arithmetic queries that
		// bit-blasting does not finish
		return "cvc5", []string{"--incremental", "--solve-bv-as-int=sum", "--lang=smt2", fmt.Sprintf("--tlimit-per=%d", timeoutMs)}, "(set-logic ALL)\n"
	case "cvc5":
		return "cvc5", []string{"--incremental", "--lang=smt2", fmt.Sprintf("--tlimit-per=%d", timeoutMs)}, "(set-logic ALL)\n"
	}
	return name, []string{"-in", "-smt2"}, ""
}

func startProc(name string) (*proc, error) {
	bin, args, prefix := solverCommand(name, 60000)
	cmd := exec.Command(bin, args...)
	_ = prefix
	in, err := cmd.StdinPipe()
	if err != nil {
		return nil, err
	}
	out, err := cmd.StdoutPipe()
	if err != nil {
		return nil, err
	}
	cmd.Stderr = os.Stderr
	if err := cmd.Start(); err != nil {
		return nil, err
	}
	p := &proc{cmd: cmd, in: in, lines: make(chan string, 1024), bin: name}
	go func() {
		rd := bufio.NewReaderSize(out, 1<<20)
		for {
			line, err := rd.ReadString('\n')
			if line != "" {
				p.lines <- strings.TrimRight(line, "\r\n")
			}
			if err != nil {
				close(p.lines)
				return
			}
		}
	}()
	return p, nil
}

func (p *proc) kill() {
	p.in.Close()
	p.cmd.Process.Kill()
	go func() {
		p.cmd.Wait()
		for range p.lines {
		}
	}()
}

func (p *proc) write(s string) { io.WriteString(p.in, s) }

// read returns the next output line; ok=false on closed pipe; timedOut when d elapsed.
func (p *proc) read(d time.Duration) (line string, ok bool, timedOut bool) {
	if d <= 0 {
		d = time.Millisecond
	}
	t := time.NewTimer(d)
	defer t.Stop()
	select {
	case l, ok := <-p.lines:
		return l, ok, false
	case <-t.C:
		return "", false, true
	}
}

type Solver struct {
	bin     string
	auxBin  string
	main    *proc
	defined map[int]int // term id -> level at which it was defined
	levels  [][]int     // term ids defined per level
	declLvl map[string]int
	lines   [][]string // context-building commands per level
	log     io.Writer
	timeout int // ms per query for the fallback solvers
	quickMs int // ms the incremental solver gets before the query is handed to the portfolio

	auxes   []*proc
	auxLive *proc // answered the last check with sat; get-value goes there

	Queries   int
	Sat       int
	Unsat     int
	Unknown   int
	Errors    []string
	Time      time.Duration
	AuxTime   time.Duration
	Fallbacks int
	Restarts  int
	Direct    int // queries sent straight to the portfolio (adaptive mode)
	recent    []bool
	directLeft int
	MaxQuery  time.Duration
	AuxWins   map[string]int
}

func NewSolver(bin string, timeoutMs int, logw io.Writer) (*Solver, error) {
	s := &Solver{bin: bin, defined: map[int]int{}, declLvl: map[string]int{}, log: logw, timeout: timeoutMs, AuxWins: map[string]int{}}
	s.levels = [][]int{nil}
	s.lines = [][]string{nil}
	s.quickMs = 400
	if err := s.startMain(); err != nil {
		return nil, err
	}
	return s, nil
}

const solverPrelude = "(set-option :print-success false)\n(set-option :produce-models true)\n"

func (s *Solver) startMain() error {
	p, err := startProc(s.bin)
	if err != nil {
		return err
	}
	s.main = p
	p.write(solverPrelude)
	return nil
}

// rebuildMain restarts the incremental solver and replays the current context.
func (s *Solver) rebuildMain() {
	s.Restarts++
	if err := s.startMain(); err != nil {
		s.Errors = append(s.Errors, "cannot restart solver: "+err.Error())
		return
	}
	var sb strings.Builder
	for i, lv := range s.lines {
		if i > 0 {
			sb.WriteString("(push 1)\n")
		}
		for _, l := range lv {
			sb.WriteString(l)
			sb.WriteString("\n")
		}
	}
	s.main.write(sb.String())
}

func (s *Solver) ensureMain() {
	if s.main == nil && s.directLeft == 0 {
		s.rebuildMain()
	}
}

// note records whether the incremental solver answered a query in time; when
// it mostly does not, the next queries go straight to the portfolio.
func (s *Solver) note(fellBack bool) {
	s.recent = append(s.recent, fellBack)
	if len(s.recent) > 24 {
		s.recent = s.recent[1:]
	}
	n := 0
	for _, b := range s.recent {
		if b {
			n++
		}
	}
	if len(s.recent) >= 20 && n*5 >= len(s.recent)*3 {
		s.directLeft = 40
		s.recent = s.recent[:0]
		if s.main != nil {
			s.main.kill()
			s.main = nil
		}
	}
}

func (s *Solver) Close() {
	if s.main != nil {
		s.main.kill()
	}
	for _, a := range s.auxes {
		if a != nil {
			a.kill()
		}
	}
}

// raw sends a command to the incremental solver only.
func (s *Solver) raw(line string) {
	if s.log != nil {
		fmt.Fprintln(s.log, line)
	}
	if s.main != nil {
		s.main.write(line + "\n")
	}
}

// send sends a context-building command (declare/define/assert) and remembers it.
func (s *Solver) send(line string) {
	s.raw(line)
	s.lines[len(s.lines)-1] = append(s.lines[len(s.lines)-1], line)
	if s.auxLive != nil {
		s.auxLive.write(line + "\n")
	}
}

func (s *Solver) Level() int { return len(s.levels) - 1 }

func (s *Solver) Push() {
	s.auxLive = nil
	s.raw("(push 1)")
	s.levels = append(s.levels, nil)
	s.lines = append(s.lines, nil)
}

func (s *Solver) Pop() {
	if len(s.levels) <= 1 {
		panic("solver pop below base")
	}
	s.auxLive = nil
	s.raw("(pop 1)")
	s.lines = s.lines[:len(s.lines)-1]
	top := s.levels[len(s.levels)-1]
	for _, id := range top {
		delete(s.defined, id)
	}
	lvl := len(s.levels) - 1
	for n, l := range s.declLvl {
		if l >= lvl {
			delete(s.declLvl, n)
		}
	}
	s.levels = s.levels[:len(s.levels)-1]
}

func (s *Solver) PopTo(level int) {
	for s.Level() > level {
		s.Pop()
	}
}

// ref returns the textual reference to t, defining shared sub-terms first.
func (s *Solver) ref(t *Term) string {
	if t.Op == "const" {
		return t.render(nil)
	}
	if t.Op == "var" {
		if _, ok := s.declLvl[t.Name]; !ok {
			s.send(fmt.Sprintf("(declare-fun %s () %s)", t.Name, t.S))
			s.declLvl[t.Name] = s.Level()
		}
		return t.Name
	}
	if _, ok := s.defined[t.id]; ok {
		return "t" + strconv.Itoa(t.id)
	}
	// iterative post-order to avoid deep recursion on long chains
	type fr struct {
		t *Term
		i int
	}
	stack := []fr{{t, 0}}
	for len(stack) > 0 {
		f := &stack[len(stack)-1]
		if f.i < len(f.t.Args) {
			a := f.t.Args[f.i]
			f.i++
			if a.Op == "const" {
				continue
			}
			if a.Op == "var" {
				s.ref(a)
				continue
			}
			if _, ok := s.defined[a.id]; ok {
				continue
			}
			stack = append(stack, fr{a, 0})
			continue
		}
		x := f.t
		stack = stack[:len(stack)-1]
		if _, ok := s.defined[x.id]; ok {
			continue
		}
		body := x.render(func(c *Term) string {
			if c.Op == "const" {
				return c.render(nil)
			}
			if c.Op == "var" {
				return c.Name
			}
			return "t" + strconv.Itoa(c.id)
		})
		s.send(fmt.Sprintf("(define-fun t%d () %s %s)", x.id, x.S, body))
		s.defined[x.id] = s.Level()
		s.levels[len(s.levels)-1] = append(s.levels[len(s.levels)-1], x.id)
	}
	return "t" + strconv.Itoa(t.id)
}

func (s *Solver) Assert(t *Term) {
	s.ensureMain()
	r := s.ref(t)
	s.auxLive = nil
	s.send("(assert " + r + ")")
}

type Result int

const (
	RSat Result = iota
	RUnsat
	RUnknown
)

func (r Result) String() string { return [...]string{"sat", "unsat", "unknown"}[r] }

func parseAnswer(line string) (Result, bool) {
	switch line {
	case "sat":
		return RSat, true
	case "unsat":
		return RUnsat, true
	case "unknown", "timeout":
		return RUnknown, true
	}
	return RUnknown, false
}

// Check runs check-sat on the current stack.
func (s *Solver) Check() Result {
	t0 := time.Now()
	s.auxLive = nil
	s.Queries++
	done := func(r Result) Result {
		d := time.Since(t0)
		s.Time += d
		if d > s.MaxQuery {
			s.MaxQuery = d
		}
		switch r {
		case RSat:
			s.Sat++
		case RUnsat:
			s.Unsat++
		default:
			s.Unknown++
		}
		return r
	}
	if s.directLeft > 0 {
		s.directLeft--
		s.Direct++
		return done(s.checkAux())
	}
	if s.main == nil {
		s.rebuildMain()
	}
	if s.main == nil {
		return done(s.checkAux())
	}
	s.raw("(check-sat)")
	deadline := time.Duration(s.quickMs) * time.Millisecond
	for {
		line, ok, timedOut := s.main.read(deadline - time.Since(t0))
		if timedOut {
			s.main.kill()
			s.main = nil
			s.note(true)
			return done(s.checkAux())
		}
		if !ok {
			s.Errors = append(s.Errors, "solver pipe closed")
			s.main = nil
			return done(s.checkAux())
		}
		if r, isAns := parseAnswer(line); isAns {
			if r == RUnknown {
				s.note(true)
				return done(s.checkAux())
			}
			s.note(false)
			return done(r)
		}
		if strings.HasPrefix(line, "(error") {
			s.Errors = append(s.Errors, line)
		} else if line != "" {
			s.Errors = append(s.Errors, "unexpected solver output: "+line)
		}
	}
}

func (s *Solver) auxBins() []string {
	var bins []string
	for _, b := range strings.Split(s.auxBin, ",") {
		if b == "" {
			continue
		}
		rb, _, _ := solverCommand(b, 0)
		if _, err := exec.LookPath(rb); err == nil {
			bins = append(bins, b)
		}
	}
	if len(bins) == 0 {
		bins = []string{s.bin}
	}
	return bins
}

func (s *Solver) contextScript(name string) string {
	var sb strings.Builder
	_, _, prefix := solverCommand(name, 0)
	sb.WriteString("(reset)\n")
	sb.WriteString(prefix)
	sb.WriteString(solverPrelude)
	if s.timeout > 0 && prefix == "" {
		fmt.Fprintf(&sb, "(set-option :timeout %d)\n", s.timeout)
	}
	for _, lv := range s.lines {
		for _, l := range lv {
			sb.WriteString(l)
			sb.WriteString("\n")
		}
	}
	return sb.String()
}

type auxAnswer struct {
	idx int
	r   Result
	err string
}

// checkAux decides the current context from scratch with the portfolio.
func (s *Solver) checkAux() Result {
	bins := s.auxBins()
	if s.auxes == nil {
		s.auxes = make([]*proc, len(bins))
	}
	for i, b := range bins {
		if a := s.auxes[i]; a != nil && a.busy != nil {
			// lost the previous race: reusable only if it has finished cleanly meanwhile
			select {
			case <-a.busy:
				if a.dirty {
					a.kill()
					s.auxes[i] = nil
				}
			default:
				a.kill()
				s.auxes[i] = nil
			}
		}
		if s.auxes[i] == nil {
			a, err := startProc(b)
			if err != nil {
				s.Errors = append(s.Errors, "fallback solver: "+err.Error())
				return RUnknown
			}
			s.auxes[i] = a
		}
	}
	s.Fallbacks++
	script := s.contextScript("z3") + "(check-sat)\n"
	tq := time.Now()
	defer func() {
		s.AuxTime += time.Since(tq)
		thr := 2 * time.Second
		if ms, err := strconv.Atoi(os.Getenv("GOSYM_DUMPSLOW_MS")); err == nil {
			thr = time.Duration(ms) * time.Millisecond
		}
		if d := os.Getenv("GOSYM_DUMPSLOW"); d != "" && time.Since(tq) > thr {
			os.WriteFile(fmt.Sprintf("%s/slow_%d.smt2", d, s.Fallbacks), []byte(script), 0o644)
		}
	}()
	ch := make(chan auxAnswer, len(s.auxes))
	limit := time.Duration(s.timeout+5000) * time.Millisecond
	for i, a := range s.auxes {
		myScript := script
		if _, _, prefix := solverCommand(a.bin, 0); prefix != "" {
			myScript = s.contextScript(a.bin) + "(check-sat)\n"
		}
		a.busy = make(chan struct{})
		a.dirty = false
		go func(i int, a *proc) {
			defer close(a.busy)
			a.write(myScript)
			for {
				line, ok, timedOut := a.read(limit)
				if timedOut {
					a.dirty = true
					ch <- auxAnswer{i, RUnknown, ""}
					return
				}
				if !ok {
					a.dirty = true
					ch <- auxAnswer{i, RUnknown, "pipe closed"}
					return
				}
				if r, isAns := parseAnswer(line); isAns {
					ch <- auxAnswer{i, r, ""}
					return
				}
				if strings.HasPrefix(line, "(error") {
					a.dirty = true
					ch <- auxAnswer{i, RUnknown, line}
					return
				}
			}
		}(i, a)
	}
	res := RUnknown
	winner := -1
	var errs []string
	for n := 0; n < len(s.auxes); n++ {
		ans := <-ch
		if ans.err != "" {
			errs = append(errs, s.auxes[ans.idx].bin+": "+ans.err)
		}
		if ans.r != RUnknown {
			res = ans.r
			winner = ans.idx
			break
		}
	}
	// losers keep running; they are reused if they finish cleanly before the
	// next portfolio query, killed and restarted otherwise
	if winner < 0 {
		for _, e := range errs {
			s.Errors = append(s.Errors, "fallback: "+e)
		}
		return RUnknown
	}
	s.AuxWins[s.auxes[winner].bin]++
	if res == RSat {
		s.auxLive = s.auxes[winner]
	}
	return res
}

// CheckAssuming checks stack ∧ t without leaving t on the stack.
func (s *Solver) CheckAssuming(t *Term) Result {
	s.ensureMain()
	s.Push()
	s.Assert(t)
	r := s.Check()
	s.Pop()
	return r
}

// GetValues returns the model values of the given BV/Bool terms after a sat answer.
func (s *Solver) GetValues(ts []*Term) ([]uint64, error) {
	if len(ts) == 0 {
		return nil, nil
	}
	var sb strings.Builder
	sb.WriteString("(get-value (")
	for _, t := range ts {
		sb.WriteString(s.ref(t))
		sb.WriteString(" ")
	}
	sb.WriteString("))")
	var p *proc
	if s.auxLive != nil {
		p = s.auxLive
		p.write(sb.String() + "\n")
	} else {
		if s.main == nil {
			// the solver that answered is gone (killed after a timeout): re-decide with the portfolio
			if s.checkAux() != RSat || s.auxLive == nil {
				return nil, fmt.Errorf("get-value: no live solver holds a model")
			}
			p = s.auxLive
			p.write(sb.String() + "\n")
		} else {
			p = s.main
			s.raw(sb.String())
		}
	}
	// read balanced s-expression
	var buf strings.Builder
	depth := 0
	started := false
	for {
		line, ok, timedOut := p.read(60 * time.Second)
		if !ok || timedOut {
			return nil, fmt.Errorf("get-value: solver pipe closed")
		}
		if strings.HasPrefix(line, "(error") {
			s.Errors = append(s.Errors, line)
			return nil, fmt.Errorf("get-value: %s", line)
		}
		buf.WriteString(line)
		buf.WriteString(" ")
		for _, c := range line {
			if c == '(' {
				depth++
				started = true
			} else if c == ')' {
				depth--
			}
		}
		if started && depth <= 0 {
			break
		}
	}
	return parseValues(buf.String(), len(ts))
}

// GetArray returns the model of an array-sorted term as a default byte plus
// explicit entries, when the solver prints it as stores over a constant array.
func (s *Solver) GetArray(t *Term) (def uint64, entries map[uint64]uint64, err error) {
	q := "(get-value (" + s.ref(t) + "))"
	var p *proc
	if s.auxLive != nil {
		p = s.auxLive
		p.write(q + "\n")
	} else {
		if s.main == nil {
			if s.checkAux() != RSat || s.auxLive == nil {
				return 0, nil, fmt.Errorf("get-value: no live solver holds a model")
			}
			p = s.auxLive
			p.write(q + "\n")
		} else {
			p = s.main
			s.raw(q)
		}
	}
	var buf strings.Builder
	depth := 0
	started := false
	for {
		line, ok, timedOut := p.read(60 * time.Second)
		if !ok || timedOut {
			return 0, nil, fmt.Errorf("get-value: solver pipe closed")
		}
		if strings.HasPrefix(line, "(error") {
			return 0, nil, fmt.Errorf("get-value: %s", line)
		}
		buf.WriteString(line)
		buf.WriteString(" ")
		for _, c := range line {
			if c == '(' {
				depth++
				started = true
			} else if c == ')' {
				depth--
			}
		}
		if started && depth <= 0 {
			break
		}
	}
	toks := tokenize(buf.String())
	// ( ( name ARR ) )
	if len(toks) < 4 || toks[0] != "(" || toks[1] != "(" {
		return 0, nil, fmt.Errorf("array model: unexpected shape")
	}
	i := 3 // after the name
	entries = map[uint64]uint64{}
	lit := func() (uint64, bool) {
		if i >= len(toks) {
			return 0, false
		}
		tok := toks[i]
		switch {
		case strings.HasPrefix(tok, "#x"):
			v, e := strconv.ParseUint(tok[2:], 16, 64)
			i++
			return v, e == nil
		case strings.HasPrefix(tok, "#b"):
			v, e := strconv.ParseUint(tok[2:], 2, 64)
			i++
			return v, e == nil
		case tok == "(" && i+3 < len(toks) && toks[i+1] == "_" && strings.HasPrefix(toks[i+2], "bv"):
			v, e := strconv.ParseUint(toks[i+2][2:], 10, 64)
			i += 5
			return v, e == nil
		}
		return 0, false
	}
	var parse func() bool
	parse = func() bool {
		if i >= len(toks) || toks[i] != "(" {
			return false
		}
		if i+2 < len(toks) && toks[i+1] == "(" && toks[i+2] == "as" {
			// ((as const (Array ...)) v)
			i++ // at inner "("
			d := 0
			for i < len(toks) {
				if toks[i] == "(" {
					d++
				} else if toks[i] == ")" {
					d--
				}
				i++
				if d == 0 {
					break
				}
			}
			v, ok := lit()
			if !ok || i >= len(toks) || toks[i] != ")" {
				return false
			}
			i++
			def = v
			return true
		}
		if i+1 < len(toks) && toks[i+1] == "store" {
			i += 2
			if !parse() {
				return false
			}
			idx, ok1 := lit()
			val, ok2 := lit()
			if !ok1 || !ok2 || i >= len(toks) || toks[i] != ")" {
				return false
			}
			i++
			entries[idx] = val
			return true
		}
		return false
	}
	if !parse() {
		return 0, nil, fmt.Errorf("array model: not a store chain over a constant array")
	}
	return def, entries, nil
}

func parseValues(txt string, n int) ([]uint64, error) {
	vals := make([]uint64, 0, n)
	toks := tokenize(txt)
	i := 0
	if i >= len(toks) || toks[i] != "(" {
		return nil, fmt.Errorf("get-value parse: %s", txt)
	}
	i++
	for i < len(toks) && toks[i] == "(" {
		i++
		// skip the term (a symbol, or an s-expression)
		if toks[i] == "(" {
			d := 0
			for {
				if toks[i] == "(" {
					d++
				} else if toks[i] == ")" {
					d--
				}
				i++
				if d == 0 {
					break
				}
			}
		} else {
			i++
		}
		if toks[i] == "(" {
			if i+2 < len(toks) && toks[i+1] == "_" && strings.HasPrefix(toks[i+2], "bv") {
				v, _ := strconv.ParseUint(toks[i+2][2:], 10, 64)
				vals = append(vals, v)
				i += 5
			} else {
				return nil, fmt.Errorf("get-value parse value: %s", txt)
			}
		} else {
			tok := toks[i]
			i++
			switch {
			case tok == "true":
				vals = append(vals, 1)
			case tok == "false":
				vals = append(vals, 0)
			case strings.HasPrefix(tok, "#x"):
				v, _ := strconv.ParseUint(tok[2:], 16, 64)
				vals = append(vals, v)
			case strings.HasPrefix(tok, "#b"):
				v, _ := strconv.ParseUint(tok[2:], 2, 64)
				vals = append(vals, v)
			default:
				return nil, fmt.Errorf("get-value parse token %q in %s", tok, txt)
			}
		}
		if i >= len(toks) || toks[i] != ")" {
			return nil, fmt.Errorf("get-value parse close: %s", txt)
		}
		i++
	}
	if len(vals) != n {
		return nil, fmt.Errorf("get-value: got %d values for %d terms: %s", len(vals), n, txt)
	}
	return vals, nil
}

func tokenize(s string) []string {
	var toks []string
	cur := strings.Builder{}
	flush := func() {
		if cur.Len() > 0 {
			toks = append(toks, cur.String())
			cur.Reset()
		}
	}
	for _, c := range s {
		switch c {
		case '(', ')':
			flush()
			toks = append(toks, string(c))
		case ' ', '\t', '\n', '\r':
			flush()
		default:
			cur.WriteRune(c)
		}
	}
	flush()
	return toks
}
