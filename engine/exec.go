package main

import (
	"fmt"
	"go/token"
	"go/types"

	"golang.org/x/tools/go/ssa"
)

func (e *Engine) exec(g *G, f *Frame, instr ssa.Instruction) {
	switch in := instr.(type) {
	case *ssa.DebugRef:
		f.pc++
	case *ssa.Alloc:
		t := in.Type().(*types.Pointer).Elem()
		o := e.newObject(t, zero(t), in.Comment)
		f.regs[in] = &Pointer{O: o}
		f.pc++
	case *ssa.BinOp:
		f.regs[in] = e.binop(in.Op, in.X.Type(), e.get(f, in.X), e.get(f, in.Y), in.Y.Type())
		f.pc++
	case *ssa.UnOp:
		if in.Op == token.ARROW {
			e.execRecv(g, f, in)
			return
		}
		f.regs[in] = e.unop(in, e.get(f, in.X))
		f.pc++
	case *ssa.Call:
		f.pc++
		e.execCall(g, f, in)
	case *ssa.ChangeInterface:
		f.regs[in] = e.get(f, in.X)
		f.pc++
	case *ssa.ChangeType:
		f.regs[in] = e.get(f, in.X)
		f.pc++
	case *ssa.Convert:
		f.regs[in] = e.convert(in.X.Type(), in.Type(), e.get(f, in.X))
		f.pc++
	case *ssa.MultiConvert:
		f.regs[in] = e.convert(in.X.Type(), in.Type(), e.get(f, in.X))
		f.pc++
	case *ssa.Extract:
		f.regs[in] = e.get(f, in.Tuple).(Tuple)[in.Index]
		f.pc++
	case *ssa.Field:
		f.regs[in] = e.get(f, in.X).(*Struct).F[in.Field]
		f.pc++
	case *ssa.FieldAddr:
		p := e.get(f, in.X).(*Pointer)
		if p.IsNil() {
			e.goPanic("runtime error: invalid memory address or nil pointer dereference")
		}
		f.regs[in] = &Pointer{O: p.O, Path: extendPath(p.Path, in.Field)}
		f.pc++
	case *ssa.Index:
		f.regs[in] = e.indexValue(e.get(f, in.X), e.get(f, in.Index), in.Index.Type())
		f.pc++
	case *ssa.IndexAddr:
		f.regs[in] = e.indexAddr(e.get(f, in.X), e.get(f, in.Index).(*Term), in.Index.Type(), in.X.Type())
		f.pc++
	case *ssa.Lookup:
		f.regs[in] = e.lookup(in, e.get(f, in.X), e.get(f, in.Index))
		f.pc++
	case *ssa.MakeChan:
		n := e.get(f, in.Size).(*Term)
		c := e.concretize(n, 64, "channel capacity")
		e.objSeq++
		f.regs[in] = &ChanObj{id: e.objSeq, Cap: int(c), T: in.Type()}
		f.pc++
	case *ssa.MakeClosure:
		env := make([]Value, len(in.Bindings))
		for i, b := range in.Bindings {
			env[i] = e.get(f, b)
		}
		f.regs[in] = &Closure{Fn: in.Fn.(*ssa.Function), Env: env}
		f.pc++
	case *ssa.MakeInterface:
		f.regs[in] = &Iface{T: in.X.Type(), V: e.get(f, in.X)}
		f.pc++
	case *ssa.MakeMap:
		f.regs[in] = e.newMap(in.Type().Underlying().(*types.Map))
		f.pc++
	case *ssa.MakeSlice:
		f.regs[in] = e.makeSlice(in.Type(), e.get(f, in.Len).(*Term), e.get(f, in.Cap).(*Term), in.Len.Type(), in.Cap.Type())
		f.pc++
	case *ssa.MapUpdate:
		m := e.get(f, in.Map).(*MapObj)
		if m == nil {
			e.goPanic("assignment to entry in nil map")
		}
		e.mapSet(m, e.get(f, in.Key), e.get(f, in.Value))
		f.pc++
	case *ssa.Range:
		f.regs[in] = e.makeRange(e.get(f, in.X))
		f.pc++
	case *ssa.Next:
		f.regs[in] = e.next(in, e.get(f, in.Iter).(*rangeIter))
		f.pc++
	case *ssa.Phi:
		// handled by jump
		f.pc++
	case *ssa.Select:
		e.execSelect(g, f, in)
	case *ssa.Send:
		e.execSend(g, f, in)
	case *ssa.Slice:
		f.regs[in] = e.sliceOp(f, in)
		f.pc++
	case *ssa.SliceToArrayPointer:
		s := e.get(f, in.X).(*Slice)
		at := in.Type().(*types.Pointer).Elem().Underlying().(*types.Array)
		if s.P == nil {
			if at.Len() == 0 {
				f.regs[in] = NilPtr
				f.pc++
				return
			}
			e.goPanic("runtime error: cannot convert slice with length 0 to array or pointer to array")
		}
		if !e.branch(BVCmp("bvsle", I64C(at.Len()), s.Len)) {
			e.goPanic("runtime error: cannot convert slice to array pointer: length too short")
		}
		f.regs[in] = e.arrayView(s, at)
		f.pc++
	case *ssa.Store:
		e.store(e.get(f, in.Addr).(*Pointer), e.get(f, in.Val))
		f.pc++
	case *ssa.TypeAssert:
		f.regs[in] = e.typeAssert(in, e.get(f, in.X).(*Iface))
		f.pc++
	case *ssa.If:
		c := e.get(f, in.Cond).(*Term)
		if !c.IsConst() {
			if f.visits == nil {
				f.visits = map[int]int{}
			}
			f.visits[f.block.Index]++
			if f.visits[f.block.Index] > e.cfg.Unwind {
				e.end("unwind", fmt.Sprintf("loop bound %d exceeded at %s", e.cfg.Unwind, e.where(f)))
			}
		}
		if !c.IsConst() && !e.cfg.NoIfConv {
			if join, vals, ok := e.specIf(f, f.block, c, 0); ok {
				e.IfConverted++
				e.jumpWith(f, join, vals)
				return
			}
		}
		if e.branch(c) {
			e.jump(f, f.block.Succs[0])
		} else {
			e.jump(f, f.block.Succs[1])
		}
	case *ssa.Jump:
		e.jump(f, f.block.Succs[0])
	case *ssa.Return:
		var res Value
		switch len(in.Results) {
		case 0:
		case 1:
			res = e.get(f, in.Results[0])
		default:
			t := make(Tuple, len(in.Results))
			for i, r := range in.Results {
				t[i] = e.get(f, r)
			}
			res = t
		}
		e.popFrame(g, res)
	case *ssa.Panic:
		v := e.get(f, in.X).(*Iface)
		e.lastStack = e.stack()
		g.panicking = &PanicV{V: v, Msg: e.panicMsg(v)}
		if len(e.lastStack) > 0 {
			e.ghostLog = append(e.ghostLog, "panic: "+g.panicking.Msg+" at "+e.lastStack[0])
		}
	case *ssa.RunDefers:
		if len(f.defers) > 0 {
			d := f.defers[len(f.defers)-1]
			f.defers = f.defers[:len(f.defers)-1]
			e.doCall(g, d.fn, d.args, nil, nil)
			return // re-executes RunDefers after the deferred call returns
		}
		f.pc++
	case *ssa.Go:
		f.pc++
		fv, args := e.prepareCall(f, in.Common())
		name := funcName(fv)
		e.spawned = append(e.spawned, name)
		if e.cfg.NoSpawn || e.noSpawn[name] {
			e.ghostLog = append(e.ghostLog, "go "+name+" (not run)")
			if sf, ok := fv.(*ssa.Function); ok && len(args) > 0 && len(sf.Params) > 0 {
				e.makeGhost(args[0], sf.Params[0].Type(), 0)
			}
			return
		}
		ng := e.newG()
		ng.name = name
		if done := e.doCall(ng, fv, args, nil, nil); done {
			ng.done = true
		}
	case *ssa.Defer:
		f.pc++
		fv, args := e.prepareCall(f, in.Common())
		f.defers = append(f.defers, deferred{fv, args})
	default:
		e.unsupported("instruction %T", instr)
	}
}

func funcName(fv Value) string {
	switch x := fv.(type) {
	case *ssa.Function:
		return x.String()
	case *Closure:
		if x == nil {
			return "nil"
		}
		return x.Fn.String()
	case *ssa.Builtin:
		return x.Name()
	case *Native:
		return x.Name
	}
	return fmt.Sprintf("%T", fv)
}

func (e *Engine) panicMsg(v *Iface) string {
	if v.T == nil {
		return "panic(nil)"
	}
	switch x := v.V.(type) {
	case *String:
		if x.Conc {
			return x.S
		}
		return "<symbolic string>"
	case *Pointer:
		// error values: try Error() on errorString-like structs
		if !x.IsNil() {
			if s, ok := e.loadPath(x.O.V, x.Path).(*Struct); ok {
				for _, fv := range s.F {
					if str, ok := fv.(*String); ok && str.Conc {
						return typeString(v.T) + ": " + str.S
					}
				}
			}
		}
	}
	return "panic value of type " + typeString(v.T)
}

// prepareCall evaluates the callee and the arguments of a call.
func (e *Engine) prepareCall(f *Frame, c *ssa.CallCommon) (Value, []Value) {
	var args []Value
	var fv Value
	if c.IsInvoke() {
		recv := e.get(f, c.Value).(*Iface)
		if recv.T == nil {
			e.goPanic("runtime error: invalid memory address or nil pointer dereference (method call on nil interface)")
		}
		m := e.prog.LookupMethod(recv.T, c.Method.Pkg(), c.Method.Name())
		if m == nil {
			e.unsupported("method %s not found on %v", c.Method.Name(), recv.T)
		}
		fv = m
		args = append(args, recv.V)
	} else {
		fv = e.get(f, c.Value)
	}
	for _, a := range c.Args {
		args = append(args, e.get(f, a))
	}
	return fv, args
}

func (e *Engine) execCall(g *G, f *Frame, in *ssa.Call) {
	fv, args := e.prepareCall(f, in.Common())
	e.doCall(g, fv, args, in, &callSite{instr: in, frame: f})
}

// doCall performs a call on goroutine g. It returns true when the call
// completed immediately (native/builtin), with the result in g.lastRet and in
// the caller's register retTo.
func (e *Engine) doCall(g *G, fv Value, args []Value, retTo ssa.Value, cs *callSite) bool {
	setRet := func(v Value) {
		g.lastRet = v
		if retTo != nil && cs != nil {
			cs.frame.regs[retTo] = v
		}
	}
	switch fn := fv.(type) {
	case *ssa.Builtin:
		setRet(e.builtin(fn, args, cs))
		return true
	case *Native:
		setRet(fn.Fn(e, g, args))
		return true
	case *Closure:
		if fn == nil {
			e.goPanic("runtime error: invalid memory address or nil pointer dereference (nil func call)")
		}
		return e.callFunction(g, fn.Fn, args, fn.Env, retTo, cs, setRet)
	case *ssa.Function:
		if fn == nil {
			e.goPanic("runtime error: invalid memory address or nil pointer dereference (nil func call)")
		}
		return e.callFunction(g, fn, args, nil, retTo, cs, setRet)
	}
	e.unsupported("call of %T", fv)
	return true
}

func (e *Engine) callFunction(g *G, fn *ssa.Function, args []Value, env []Value, retTo ssa.Value, cs *callSite, setRet func(Value)) bool {
	if fn.Synthetic == "package initializer" && fn != e.initTarget {
		// imported packages are initialised lazily, when first touched
		setRet(nil)
		return true
	}
	name := fn.String()
	if fn.Origin() != nil {
		// instantiated generic: also try the origin's name
		if r, ok := e.replace[fn.Origin().String()]; ok {
			e.StubsUsed["replace:"+fn.Origin().String()]++
			e.pushFrame(g, r, args, nil, retTo)
			return false
		}
	}
	if r, ok := e.replace[name]; ok {
		e.StubsUsed["replace:"+name]++
		e.pushFrame(g, r, args, nil, retTo)
		return false
	}
	if nf, ok := e.natives[name]; ok {
		if v, handled := nf(e, g, cs, args); handled {
			e.StubsUsed[name]++
			setRet(v)
			return true
		}
	}
	if nf := e.nativeByPattern(fn); nf != nil {
		if v, handled := nf(e, g, cs, args); handled {
			e.StubsUsed[name]++
			setRet(v)
			return true
		}
	}
	if fn.Blocks == nil {
		e.unsupported("no body and no stub for %s", name)
	}
	e.pushFrame(g, fn, args, env, retTo)
	return false
}

// ---- type assertions ----

func (e *Engine) typeAssert(in *ssa.TypeAssert, x *Iface) Value {
	at := in.AssertedType
	ok := false
	var res Value
	if _, isIface := at.Underlying().(*types.Interface); isIface {
		if x.T != nil {
			ok = types.Implements(x.T, at.Underlying().(*types.Interface))
			if !ok {
				// pointer receiver method sets
				ok = types.AssignableTo(x.T, at)
			}
		}
		if ok {
			res = x
		} else {
			res = NilIface
		}
	} else {
		ok = x.T != nil && types.Identical(x.T, at)
		if ok {
			res = x.V
		} else {
			res = zero(at)
		}
	}
	if in.CommaOk {
		return Tuple{res, BoolC(ok)}
	}
	if !ok {
		if x.T == nil {
			e.goPanic(fmt.Sprintf("interface conversion: interface is nil, not %s", typeString(at)))
		}
		e.goPanic(fmt.Sprintf("interface conversion: interface is %s, not %s", typeString(x.T), typeString(at)))
	}
	return res
}

// ---- slices, arrays, indexing ----

func (e *Engine) toI64(v *Term, t types.Type) *Term {
	w, signed, ok := typeIntInfo(t)
	if !ok {
		e.unsupported("non-integer index type %v", t)
	}
	if w == 64 {
		return v
	}
	if signed {
		return SExt(v, 64)
	}
	return ZExt(v, 64)
}

// boundsCheck forks a panic path when 0 <= i < n can fail.
func (e *Engine) boundsCheck(i, n *Term, what string) {
	ok := BVCmp("bvult", i, n) // unsigned compare also rejects negatives (n >= 0)
	if !e.branch(ok) {
		e.goPanic(fmt.Sprintf("runtime error: index out of range (%s)", what))
	}
}

func (e *Engine) container(p *Pointer) Value {
	return e.loadPath(p.O.V, p.Path)
}

func (e *Engine) indexAddr(x Value, idx *Term, idxT types.Type, xt types.Type) Value {
	i := e.toI64(idx, idxT)
	switch c := x.(type) {
	case *Slice:
		e.boundsCheck(i, c.Len, "slice")
		if c.P == nil {
			e.unsupported("index of nil slice passed bounds check")
		}
		abs := BVBin("bvadd", c.Off, i)
		switch e.container(c.P).(type) {
		case *Bytes:
			return &Pointer{O: c.P.O, Path: c.P.Path, Sym: abs}
		default:
			k := e.concretize(abs, e.cfg.MaxAlloc, "slice index")
			return &Pointer{O: c.P.O, Path: extendPath(c.P.Path, int(k))}
		}
	case *Pointer:
		if c.IsNil() {
			e.goPanic("runtime error: invalid memory address or nil pointer dereference")
		}
		at := xt.Underlying().(*types.Pointer).Elem().Underlying().(*types.Array)
		e.boundsCheck(i, I64C(at.Len()), "array")
		if isByteType(at.Elem()) {
			if c.Sym != nil {
				e.unsupported("nested symbolic byte pointer")
			}
			return &Pointer{O: c.O, Path: c.Path, Sym: i}
		}
		k := e.concretize(i, e.cfg.MaxAlloc, "array index")
		return &Pointer{O: c.O, Path: extendPath(c.Path, int(k))}
	}
	e.unsupported("IndexAddr on %T", x)
	return nil
}

func (e *Engine) indexValue(x Value, idx Value, idxT types.Type) Value {
	i := e.toI64(idx.(*Term), idxT)
	switch c := x.(type) {
	case *Array:
		e.boundsCheck(i, I64C(int64(len(c.E))), "array value")
		if i.IsConst() {
			return c.E[i.Val]
		}
		// ite chain for scalars, fork otherwise
		if _, ok := c.E[0].(*Term); ok {
			r := c.E[len(c.E)-1].(*Term)
			for k := len(c.E) - 2; k >= 0; k-- {
				r = Ite(Eq(i, I64C(int64(k))), c.E[k].(*Term), r)
			}
			return r
		}
		k := e.concretize(i, len(c.E), "array value index")
		return c.E[k]
	case *Bytes:
		e.boundsCheck(i, c.N, "byte array value")
		return Select(c.A, i)
	case *String:
		e.boundsCheck(i, c.LenTerm(), "string")
		return c.byteAt(i)
	}
	e.unsupported("Index on %T", x)
	return nil
}

func (e *Engine) makeSlice(t types.Type, ln, cp *Term, lt, ct types.Type) Value {
	st := t.Underlying().(*types.Slice)
	l := e.toI64(ln, lt)
	c := e.toI64(cp, ct)
	if !e.branch(BVCmp("bvsle", I64C(0), l)) {
		e.goPanic("runtime error: makeslice: len out of range")
	}
	if !e.branch(BVCmp("bvsle", l, c)) {
		e.goPanic("runtime error: makeslice: cap out of range")
	}
	if isByteType(st.Elem()) {
		e.noteAlloc(c)
		o := e.newObject(types.NewArray(st.Elem(), 0), &Bytes{A: ZeroArr, N: c}, "makeslice")
		return &Slice{P: &Pointer{O: o}, Off: I64C(0), Len: l, Cap: c}
	}
	o := e.newObject(types.NewArray(st.Elem(), 0), &Array{Z: zero(st.Elem())}, "makeslice")
	return &Slice{P: &Pointer{O: o}, Off: I64C(0), Len: l, Cap: c}
}

func (e *Engine) noteAlloc(n *Term) {
	e.maxMake = Ite(BVCmp("bvult", e.maxMake, n), n, e.maxMake)
}

// arrayView returns a pointer to the array that starts at the slice's first element.
func (e *Engine) arrayView(s *Slice, at *types.Array) Value {
	if _, ok := e.container(s.P).(*Bytes); ok {
		if s.Off.IsConst() && s.Off.Val == 0 {
			return s.P // same storage; the array type is only a view
		}
		e.unsupported("slice-to-array-pointer at non-zero offset")
	}
	if s.Off.IsConst() && s.Off.Val == 0 {
		return s.P
	}
	e.unsupported("slice-to-array-pointer at non-zero offset")
	return nil
}

func (e *Engine) sliceOp(f *Frame, in *ssa.Slice) Value {
	x := e.get(f, in.X)
	opt := func(v ssa.Value) *Term {
		if v == nil {
			return nil
		}
		return e.toI64(e.get(f, v).(*Term), v.Type())
	}
	lo, hi, mx := opt(in.Low), opt(in.High), opt(in.Max)
	if lo == nil {
		lo = I64C(0)
	}
	switch c := x.(type) {
	case *String:
		n := c.LenTerm()
		if hi == nil {
			hi = n
		}
		e.sliceCheck(lo, hi, n)
		if c.Conc && lo.IsConst() && hi.IsConst() {
			return ConcStr(c.S[lo.Val:hi.Val])
		}
		a, off := c.arr()
		return &String{A: a, Off: BVBin("bvadd", off, lo), Len: BVBin("bvsub", hi, lo)}
	case *Slice:
		if hi == nil {
			hi = c.Len
		}
		if mx == nil {
			mx = c.Cap
		}
		e.sliceCheck3(lo, hi, mx, c.Cap)
		if c.P == nil {
			return &Slice{Off: I64C(0), Len: I64C(0), Cap: I64C(0)}
		}
		return &Slice{P: c.P, Off: BVBin("bvadd", c.Off, lo), Len: BVBin("bvsub", hi, lo), Cap: BVBin("bvsub", mx, lo)}
	case *Pointer:
		if c.IsNil() {
			e.goPanic("runtime error: invalid memory address or nil pointer dereference")
		}
		at := in.X.Type().Underlying().(*types.Pointer).Elem().Underlying().(*types.Array)
		n := I64C(at.Len())
		if hi == nil {
			hi = n
		}
		if mx == nil {
			mx = n
		}
		e.sliceCheck3(lo, hi, mx, n)
		base := c
		off := lo
		if c.Sym != nil {
			e.unsupported("slice of symbolic array pointer")
		}
		return &Slice{P: base, Off: off, Len: BVBin("bvsub", hi, lo), Cap: BVBin("bvsub", mx, lo)}
	}
	e.unsupported("Slice on %T", x)
	return nil
}

func (e *Engine) sliceCheck(lo, hi, n *Term) {
	ok := And(BVCmp("bvule", lo, hi), BVCmp("bvule", hi, n))
	if !e.branch(ok) {
		e.goPanic("runtime error: slice bounds out of range")
	}
}

func (e *Engine) sliceCheck3(lo, hi, mx, cp *Term) {
	ok := And(And(BVCmp("bvule", lo, hi), BVCmp("bvule", hi, mx)), BVCmp("bvule", mx, cp))
	if !e.branch(ok) {
		e.goPanic("runtime error: slice bounds out of range")
	}
}

// sliceBytes returns the SMT array and offset of a byte slice's storage.
func (e *Engine) sliceBytes(s *Slice) (*Term, *Term) {
	if s.P == nil {
		return ZeroArr, I64C(0)
	}
	b, ok := e.container(s.P).(*Bytes)
	if !ok {
		e.unsupported("byte view of %T", e.container(s.P))
	}
	return b.A, s.Off
}

func (e *Engine) setSliceBytes(s *Slice, a *Term) {
	b := e.container(s.P).(*Bytes)
	s.P.O.V = e.storePath(s.P.O.V, s.P.Path, &Bytes{A: a, N: b.N})
}

func (e *Engine) isByteSlice(s *Slice, t types.Type) bool {
	if s.P != nil {
		_, ok := e.container(s.P).(*Bytes)
		return ok
	}
	if t != nil {
		if st, ok := t.Underlying().(*types.Slice); ok {
			return isByteType(st.Elem())
		}
	}
	return false
}

// elems reads n (concrete) elements of a generic slice.
func (e *Engine) sliceElem(s *Slice, k int) Value {
	off := int(e.concretize(s.Off, e.cfg.MaxAlloc, "slice offset"))
	c := e.container(s.P).(*Array)
	if off+k < len(c.E) {
		return c.E[off+k]
	}
	if c.Z == nil {
		e.unsupported("slice element beyond array")
	}
	return c.Z
}

func (e *Engine) setSliceElem(s *Slice, k int, v Value) {
	off := int(e.concretize(s.Off, e.cfg.MaxAlloc, "slice offset"))
	s.P.O.V = e.storePath(s.P.O.V, extendPath(s.P.Path, off+k), v)
}
