package main

// One `z3 -in` process kept alive for the whole run, driven with SMT-LIB2 text
// and push/pop. Shared sub-terms are introduced with define-fun so a term DAG
// is never printed as a tree. Any `(error` line or `unknown` answer is
// surfaced to the caller, who treats it as inconclusive.

import (
	"bufio"
	"fmt"
	"io"
	"os"
	"os/exec"
	"strconv"
	"strings"
	"time"
)

type Solver struct {
	cmd     *exec.Cmd
	in      io.WriteCloser
	out     *bufio.Reader
	defined map[int]int // term id -> level at which it was defined
	levels  [][]int     // term ids defined per level
	declLvl map[string]int
	Queries int
	Sat     int
	Unsat   int
	Unknown int
	Errors  []string
	Time    time.Duration
	log     io.Writer
	timeout int // ms per query (fallback solver)
	quickMs int // ms per query for the incremental solver before falling back
	bin     string
	auxBin  string
	lines   [][]string // commands sent per level (to rebuild the context in the fallback solver)
	aux     *auxSolver
	auxes   []*auxSolver
	AuxWins map[string]int
	auxLive bool // last check was answered by the fallback solver; mirror commands to it
	Fallbacks int
	AuxTime time.Duration
	MaxQuery time.Duration
}

type auxSolver struct {
	cmd *exec.Cmd
	in  io.WriteCloser
	out *bufio.Reader
	bin string
}

func NewSolver(bin string, timeoutMs int, logw io.Writer) (*Solver, error) {
	args := []string{"-in", "-smt2"}
	cmd := exec.Command(bin, args...)
	in, err := cmd.StdinPipe()
	if err != nil {
		return nil, err
	}
	out, err := cmd.StdoutPipe()
	if err != nil {
		return nil, err
	}
	cmd.Stderr = os.Stderr
	if err := cmd.Start(); err != nil {
		return nil, err
	}
	s := &Solver{cmd: cmd, in: in, out: bufio.NewReaderSize(out, 1<<20), defined: map[int]int{}, declLvl: map[string]int{}, log: logw, timeout: timeoutMs, bin: bin}
	s.levels = [][]int{nil}
	s.lines = [][]string{nil}
	s.quickMs = 100
	s.AuxWins = map[string]int{}
	if timeoutMs > 0 && timeoutMs < s.quickMs {
		s.quickMs = timeoutMs
	}
	s.raw("(set-option :print-success false)")
	s.raw("(set-option :produce-models true)")
	s.raw(fmt.Sprintf("(set-option :timeout %d)", s.quickMs))
	return s, nil
}

func (s *Solver) Close() {
	s.in.Close()
	s.cmd.Process.Kill()
	s.cmd.Wait()
	for _, a := range s.auxes {
		if a != nil {
			a.kill()
		}
	}
}

// raw sends a command to the incremental solver only.
func (s *Solver) raw(line string) {
	if s.log != nil {
		fmt.Fprintln(s.log, line)
	}
	io.WriteString(s.in, line)
	io.WriteString(s.in, "\n")
}

// send sends a context-building command (declare/define/assert) and remembers it.
func (s *Solver) send(line string) {
	s.raw(line)
	s.lines[len(s.lines)-1] = append(s.lines[len(s.lines)-1], line)
	if s.auxLive {
		io.WriteString(s.aux.in, line)
		io.WriteString(s.aux.in, "\n")
	}
}

// auxiliary (fallback) solvers: a portfolio of non-incremental solver processes.
// Every fallback query is sent to all of them; the first definite answer wins
// and the others are killed and restarted lazily. Tactic-based solving is an
// order of magnitude faster than the incremental core on the hard bit-vector
// queries, and the two z3 versions have very different heavy tails.

func startAuxProc(bin string) (*auxSolver, error) {
	cmd := exec.Command(bin, "-in", "-smt2")
	in, err := cmd.StdinPipe()
	if err != nil {
		return nil, err
	}
	out, err := cmd.StdoutPipe()
	if err != nil {
		return nil, err
	}
	cmd.Stderr = os.Stderr
	if err := cmd.Start(); err != nil {
		return nil, err
	}
	return &auxSolver{cmd: cmd, in: in, out: bufio.NewReaderSize(out, 1<<20), bin: bin}, nil
}

func (a *auxSolver) kill() {
	a.in.Close()
	a.cmd.Process.Kill()
	go a.cmd.Wait()
}

func (s *Solver) auxBins() []string {
	var bins []string
	for _, b := range strings.Split(s.auxBin, ",") {
		if b == "" {
			continue
		}
		if _, err := exec.LookPath(b); err == nil {
			bins = append(bins, b)
		}
	}
	if len(bins) == 0 {
		bins = []string{s.bin}
	}
	return bins
}

type auxAnswer struct {
	idx int
	r   Result
	err string
}

func (s *Solver) checkAux() Result {
	bins := s.auxBins()
	if s.auxes == nil {
		s.auxes = make([]*auxSolver, len(bins))
	}
	for i, b := range bins {
		if s.auxes[i] == nil {
			a, err := startAuxProc(b)
			if err != nil {
				s.Errors = append(s.Errors, "fallback solver: "+err.Error())
				return RUnknown
			}
			s.auxes[i] = a
		}
	}
	s.Fallbacks++
	var sb strings.Builder
	sb.WriteString("(reset)\n(set-option :print-success false)\n(set-option :produce-models true)\n")
	if s.timeout > 0 {
		fmt.Fprintf(&sb, "(set-option :timeout %d)\n", s.timeout)
	}
	for _, lv := range s.lines {
		for _, l := range lv {
			sb.WriteString(l)
			sb.WriteString("\n")
		}
	}
	sb.WriteString("(check-sat)\n")
	script := sb.String()
	tq := time.Now()
	defer func() { s.AuxTime += time.Since(tq) }()
	defer func() {
		if d := os.Getenv("GOSYM_DUMPSLOW"); d != "" && time.Since(tq) > 2*time.Second {
			os.WriteFile(fmt.Sprintf("%s/slow_%d.smt2", d, s.Fallbacks), []byte(script), 0o644)
		}
	}()
	ch := make(chan auxAnswer, len(s.auxes))
	for i, a := range s.auxes {
		go func(i int, a *auxSolver) {
			io.WriteString(a.in, script)
			for {
				line, err := a.out.ReadString('\n')
				if err != nil {
					ch <- auxAnswer{i, RUnknown, "pipe: " + err.Error()}
					return
				}
				line = strings.TrimRight(line, "\r\n")
				switch {
				case line == "sat":
					ch <- auxAnswer{i, RSat, ""}
					return
				case line == "unsat":
					ch <- auxAnswer{i, RUnsat, ""}
					return
				case line == "unknown" || line == "timeout":
					ch <- auxAnswer{i, RUnknown, ""}
					return
				case strings.HasPrefix(line, "(error"):
					ch <- auxAnswer{i, RUnknown, line}
					return
				}
			}
		}(i, a)
	}
	res := RUnknown
	winner := -1
	var errs []string
	for n := 0; n < len(s.auxes); n++ {
		ans := <-ch
		if ans.err != "" {
			errs = append(errs, s.auxes[ans.idx].bin+": "+ans.err)
		}
		if ans.r != RUnknown {
			res = ans.r
			winner = ans.idx
			break
		}
	}
	for i, a := range s.auxes {
		if i == winner {
			continue
		}
		// either still running (loser) or answered unknown/error: restart lazily
		a.kill()
		s.auxes[i] = nil
	}
	if winner < 0 {
		for _, e := range errs {
			s.Errors = append(s.Errors, "fallback: "+e)
		}
		return RUnknown
	}
	s.AuxWins[s.auxes[winner].bin]++
	if res == RSat {
		s.aux = s.auxes[winner]
		s.auxLive = true
	}
	return res
}

func (s *Solver) Level() int { return len(s.levels) - 1 }

func (s *Solver) Push() {
	s.auxLive = false
	s.raw("(push 1)")
	s.levels = append(s.levels, nil)
	s.lines = append(s.lines, nil)
}

func (s *Solver) Pop() {
	if len(s.levels) <= 1 {
		panic("solver pop below base")
	}
	s.auxLive = false
	s.raw("(pop 1)")
	s.lines = s.lines[:len(s.lines)-1]
	top := s.levels[len(s.levels)-1]
	for _, id := range top {
		delete(s.defined, id)
	}
	lvl := len(s.levels) - 1
	for n, l := range s.declLvl {
		if l >= lvl {
			delete(s.declLvl, n)
		}
	}
	s.levels = s.levels[:len(s.levels)-1]
}

func (s *Solver) PopTo(level int) {
	for s.Level() > level {
		s.Pop()
	}
}

// ref returns the textual reference to t, defining shared sub-terms first.
func (s *Solver) ref(t *Term) string {
	if t.Op == "const" {
		return t.render(nil)
	}
	if t.Op == "var" {
		if _, ok := s.declLvl[t.Name]; !ok {
			s.send(fmt.Sprintf("(declare-fun %s () %s)", t.Name, t.S))
			s.declLvl[t.Name] = s.Level()
		}
		return t.Name
	}
	if _, ok := s.defined[t.id]; ok {
		return "t" + strconv.Itoa(t.id)
	}
	// iterative post-order to avoid deep recursion on long chains
	type fr struct {
		t *Term
		i int
	}
	stack := []fr{{t, 0}}
	for len(stack) > 0 {
		f := &stack[len(stack)-1]
		if f.i < len(f.t.Args) {
			a := f.t.Args[f.i]
			f.i++
			if a.Op == "const" {
				continue
			}
			if a.Op == "var" {
				s.ref(a)
				continue
			}
			if _, ok := s.defined[a.id]; ok {
				continue
			}
			stack = append(stack, fr{a, 0})
			continue
		}
		x := f.t
		stack = stack[:len(stack)-1]
		if _, ok := s.defined[x.id]; ok {
			continue
		}
		body := x.render(func(c *Term) string {
			if c.Op == "const" {
				return c.render(nil)
			}
			if c.Op == "var" {
				return c.Name
			}
			return "t" + strconv.Itoa(c.id)
		})
		s.send(fmt.Sprintf("(define-fun t%d () %s %s)", x.id, x.S, body))
		s.defined[x.id] = s.Level()
		s.levels[len(s.levels)-1] = append(s.levels[len(s.levels)-1], x.id)
	}
	return "t" + strconv.Itoa(t.id)
}

func (s *Solver) Assert(t *Term) {
	r := s.ref(t)
	s.auxLive = false
	s.send("(assert " + r + ")")
}

type Result int

const (
	RSat Result = iota
	RUnsat
	RUnknown
)

func (r Result) String() string { return [...]string{"sat", "unsat", "unknown"}[r] }

func (s *Solver) readLine() string {
	line, err := s.out.ReadString('\n')
	if err != nil {
		s.Errors = append(s.Errors, "solver pipe: "+err.Error())
		return "(error \"pipe closed\")"
	}
	return strings.TrimRight(line, "\r\n")
}

// Check runs check-sat on the current stack.
func (s *Solver) Check() Result {
	t0 := time.Now()
	s.auxLive = false
	s.raw("(check-sat)")
	s.Queries++
	done := func(r Result) Result {
		d := time.Since(t0)
		s.Time += d
		if d > s.MaxQuery {
			s.MaxQuery = d
		}
		switch r {
		case RSat:
			s.Sat++
		case RUnsat:
			s.Unsat++
		default:
			s.Unknown++
		}
		return r
	}
	for {
		line := s.readLine()
		switch {
		case line == "sat":
			return done(RSat)
		case line == "unsat":
			return done(RUnsat)
		case line == "unknown" || line == "timeout":
			return done(s.checkAux())
		case strings.HasPrefix(line, "(error"):
			s.Errors = append(s.Errors, line)
			if strings.Contains(line, "pipe closed") {
				s.Unknown++
				return RUnknown
			}
		case line == "":
		default:
			s.Errors = append(s.Errors, "unexpected solver output: "+line)
		}
	}
}

// CheckAssuming checks stack ∧ t without leaving t on the stack.
func (s *Solver) CheckAssuming(t *Term) Result {
	s.Push()
	s.Assert(t)
	r := s.Check()
	s.Pop()
	return r
}

// GetValues returns the model values of the given BV/Bool terms after a sat answer.
func (s *Solver) GetValues(ts []*Term) ([]uint64, error) {
	if len(ts) == 0 {
		return nil, nil
	}
	var sb strings.Builder
	sb.WriteString("(get-value (")
	for _, t := range ts {
		sb.WriteString(s.ref(t))
		sb.WriteString(" ")
	}
	sb.WriteString("))")
	rd := s.readLine
	if s.auxLive {
		io.WriteString(s.aux.in, sb.String()+"\n")
		rd = func() string {
			line, err := s.aux.out.ReadString('\n')
			if err != nil {
				return "(error \"fallback pipe closed\")"
			}
			return strings.TrimRight(line, "\r\n")
		}
	} else {
		s.raw(sb.String())
	}
	// read balanced s-expression
	var buf strings.Builder
	depth := 0
	started := false
	for {
		line := rd()
		if strings.HasPrefix(line, "(error") {
			s.Errors = append(s.Errors, line)
			return nil, fmt.Errorf("get-value: %s", line)
		}
		buf.WriteString(line)
		buf.WriteString(" ")
		for _, c := range line {
			if c == '(' {
				depth++
				started = true
			} else if c == ')' {
				depth--
			}
		}
		if started && depth <= 0 {
			break
		}
	}
	txt := buf.String()
	// values appear as #x.. / #b.. / true / false, in order, one per pair
	vals := make([]uint64, 0, len(ts))
	toks := tokenize(txt)
	// structure: ( ( name val ) ( name val ) ... ) ; val may be (_ bvN W)
	i := 0
	expect := func(tok string) bool {
		if i < len(toks) && toks[i] == tok {
			i++
			return true
		}
		return false
	}
	if !expect("(") {
		return nil, fmt.Errorf("get-value parse: %s", txt)
	}
	for i < len(toks) && toks[i] == "(" {
		i++
		// skip name (may itself be an s-expr? names are symbols or literals)
		if toks[i] == "(" {
			d := 0
			for {
				if toks[i] == "(" {
					d++
				} else if toks[i] == ")" {
					d--
				}
				i++
				if d == 0 {
					break
				}
			}
		} else {
			i++
		}
		// value
		if toks[i] == "(" {
			// (_ bv123 32)
			if toks[i+1] == "_" && strings.HasPrefix(toks[i+2], "bv") {
				v, _ := strconv.ParseUint(toks[i+2][2:], 10, 64)
				vals = append(vals, v)
				i += 5
			} else {
				return nil, fmt.Errorf("get-value parse value: %s", txt)
			}
		} else {
			tok := toks[i]
			i++
			switch {
			case tok == "true":
				vals = append(vals, 1)
			case tok == "false":
				vals = append(vals, 0)
			case strings.HasPrefix(tok, "#x"):
				v, _ := strconv.ParseUint(tok[2:], 16, 64)
				vals = append(vals, v)
			case strings.HasPrefix(tok, "#b"):
				v, _ := strconv.ParseUint(tok[2:], 2, 64)
				vals = append(vals, v)
			default:
				return nil, fmt.Errorf("get-value parse token %q in %s", tok, txt)
			}
		}
		if !expect(")") {
			return nil, fmt.Errorf("get-value parse close: %s", txt)
		}
	}
	if len(vals) != len(ts) {
		return nil, fmt.Errorf("get-value: got %d values for %d terms: %s", len(vals), len(ts), txt)
	}
	return vals, nil
}

func tokenize(s string) []string {
	var toks []string
	cur := strings.Builder{}
	flush := func() {
		if cur.Len() > 0 {
			toks = append(toks, cur.String())
			cur.Reset()
		}
	}
	for _, c := range s {
		switch c {
		case '(', ')':
			flush()
			toks = append(toks, string(c))
		case ' ', '\t', '\n', '\r':
			flush()
		default:
			cur.WriteRune(c)
		}
	}
	flush()
	return toks
}
