package main

import (
	"fmt"
	"go/token"
	"go/types"
	"math"
	"strings"
	"unicode/utf8"

	"golang.org/x/tools/go/ssa"
)

func (e *Engine) binop(op token.Token, xt types.Type, x, y Value, yt types.Type) Value {
	switch a := x.(type) {
	case *Term:
		b, ok := y.(*Term)
		if !ok {
			e.unsupported("binop %s on term and %T", op, y)
		}
		if a.S.K == SBool {
			switch op {
			case token.EQL:
				return Eq(a, b)
			case token.NEQ:
				return Not(Eq(a, b))
			case token.AND, token.LAND:
				return And(a, b)
			case token.OR, token.LOR:
				return Or(a, b)
			}
			e.unsupported("bool binop %s", op)
		}
		_, signed, _ := typeIntInfo(xt)
		return e.intBinop(op, a, b, signed, yt)
	case *Float:
		b, ok := y.(*Float)
		if !ok {
			e.unsupported("float binop with %T", y)
		}
		switch op {
		case token.ADD:
			return &Float{a.F + b.F}
		case token.SUB:
			return &Float{a.F - b.F}
		case token.MUL:
			return &Float{a.F * b.F}
		case token.QUO:
			return &Float{a.F / b.F}
		case token.EQL:
			return BoolC(a.F == b.F)
		case token.NEQ:
			return BoolC(a.F != b.F)
		case token.LSS:
			return BoolC(a.F < b.F)
		case token.LEQ:
			return BoolC(a.F <= b.F)
		case token.GTR:
			return BoolC(a.F > b.F)
		case token.GEQ:
			return BoolC(a.F >= b.F)
		}
		e.unsupported("float binop %s", op)
	case *String:
		b := y.(*String)
		switch op {
		case token.ADD:
			return e.strConcat(a, b)
		case token.EQL:
			return e.strEq(a, b)
		case token.NEQ:
			return Not(e.strEq(a, b))
		case token.LSS, token.LEQ, token.GTR, token.GEQ:
			if a.Conc && b.Conc {
				switch op {
				case token.LSS:
					return BoolC(a.S < b.S)
				case token.LEQ:
					return BoolC(a.S <= b.S)
				case token.GTR:
					return BoolC(a.S > b.S)
				default:
					return BoolC(a.S >= b.S)
				}
			}
			return e.strLess(op, a, b)
		}
		e.unsupported("string binop %s", op)
	}
	switch op {
	case token.EQL:
		return e.equal(x, y)
	case token.NEQ:
		return Not(e.equal(x, y))
	}
	e.unsupported("binop %s on %T", op, x)
	return nil
}

func (e *Engine) intBinop(op token.Token, a, b *Term, signed bool, yt types.Type) Value {
	w := a.S.W
	switch op {
	case token.ADD:
		return BVBin("bvadd", a, b)
	case token.SUB:
		return BVBin("bvsub", a, b)
	case token.MUL:
		return BVBin("bvmul", a, b)
	case token.QUO, token.REM:
		if !e.branch(Not(Eq(b, BVC(w, 0)))) {
			e.goPanic("runtime error: integer divide by zero")
		}
		if signed {
			if op == token.QUO {
				return BVBin("bvsdiv", a, b)
			}
			return BVBin("bvsrem", a, b)
		}
		if op == token.QUO {
			return BVBin("bvudiv", a, b)
		}
		return BVBin("bvurem", a, b)
	case token.AND:
		return BVBin("bvand", a, b)
	case token.OR:
		return BVBin("bvor", a, b)
	case token.XOR:
		return BVBin("bvxor", a, b)
	case token.AND_NOT:
		return BVBin("bvand", a, BVNot(b))
	case token.SHL, token.SHR:
		// shift count has its own type
		bw, bsigned, _ := typeIntInfo(yt)
		if bsigned {
			if !e.branch(BVCmp("bvsle", BVC(bw, 0), b)) {
				e.goPanic("runtime error: negative shift amount")
			}
		}
		var cnt *Term
		if bw == w {
			cnt = b
		} else if bw < w {
			cnt = ZExt(b, w)
		} else {
			// saturate
			big := BVCmp("bvule", BVC(bw, uint64(w)), b)
			cnt = Ite(big, BVC(w, uint64(w)), Extract(w-1, 0, b))
		}
		if op == token.SHL {
			return BVBin("bvshl", a, cnt)
		}
		if signed {
			return BVBin("bvashr", a, cnt)
		}
		return BVBin("bvlshr", a, cnt)
	case token.EQL:
		return Eq(a, b)
	case token.NEQ:
		return Not(Eq(a, b))
	case token.LSS:
		if signed {
			return BVCmp("bvslt", a, b)
		}
		return BVCmp("bvult", a, b)
	case token.LEQ:
		if signed {
			return BVCmp("bvsle", a, b)
		}
		return BVCmp("bvule", a, b)
	case token.GTR:
		if signed {
			return BVCmp("bvslt", b, a)
		}
		return BVCmp("bvult", b, a)
	case token.GEQ:
		if signed {
			return BVCmp("bvsle", b, a)
		}
		return BVCmp("bvule", b, a)
	}
	e.unsupported("int binop %s", op)
	return nil
}

func (e *Engine) unop(in *ssa.UnOp, x Value) Value {
	switch in.Op {
	case token.MUL:
		return e.load(x.(*Pointer))
	case token.NOT:
		return Not(x.(*Term))
	case token.SUB:
		if f, ok := x.(*Float); ok {
			return &Float{-f.F}
		}
		return BVNeg(x.(*Term))
	case token.XOR:
		return BVNot(x.(*Term))
	}
	e.unsupported("unop %s", in.Op)
	return nil
}

// ---- conversions ----

func (e *Engine) convert(from, to types.Type, x Value) Value {
	if tp, ok := from.(*types.TypeParam); ok {
		from = tp.Underlying()
	}
	if tp, ok := to.(*types.TypeParam); ok {
		to = tp.Underlying()
	}
	fu, tu := from.Underlying(), to.Underlying()
	switch v := x.(type) {
	case *Term:
		if v.S.K == SBool {
			return v
		}
		fw, fsigned, _ := typeIntInfo(from)
		if tb, ok := tu.(*types.Basic); ok {
			if tw, _, ok := intWidth(tb); ok {
				_ = fw
				if tw == v.S.W {
					return v
				}
				if tw < v.S.W {
					return Extract(tw-1, 0, v)
				}
				if fsigned {
					return SExt(v, tw)
				}
				return ZExt(v, tw)
			}
			if tb.Info()&types.IsFloat != 0 {
				if v.IsConst() {
					if fsigned {
						return &Float{float64(v.SVal())}
					}
					return &Float{float64(v.Val)}
				}
				e.unsupported("symbolic int to float conversion")
			}
			if tb.Info()&types.IsString != 0 {
				// string(rune)
				if v.IsConst() {
					return ConcStr(string(rune(v.SVal())))
				}
				e.unsupported("symbolic rune to string conversion")
			}
			if tb.Kind() == types.UnsafePointer {
				e.unsupported("uintptr to unsafe.Pointer")
			}
		}
	case *Float:
		if tb, ok := tu.(*types.Basic); ok {
			if tb.Info()&types.IsFloat != 0 {
				if tb.Kind() == types.Float32 {
					return &Float{float64(float32(v.F))}
				}
				return v
			}
			if tw, signed, ok := intWidth(tb); ok {
				if signed {
					return BVC(tw, uint64(int64(v.F)))
				}
				if v.F >= math.Exp2(63) {
					return BVC(tw, uint64(v.F))
				}
				return BVC(tw, uint64(int64(v.F)))
			}
		}
	case *String:
		if ts, ok := tu.(*types.Slice); ok {
			if isByteType(ts.Elem()) {
				a, off := v.arr()
				n := v.LenTerm()
				o := e.newObject(types.NewArray(ts.Elem(), 0), &Bytes{A: a, N: BVBin("bvadd", off, n)}, "[]byte(string)")
				return &Slice{P: &Pointer{O: o}, Off: off, Len: n, Cap: n}
			}
			// []rune
			if v.Conc {
				rs := []rune(v.S)
				el := make([]Value, len(rs))
				for i, r := range rs {
					el[i] = BVC(32, uint64(r))
				}
				o := e.newObject(types.NewArray(ts.Elem(), int64(len(rs))), &Array{E: el, Z: BVC(32, 0)}, "[]rune")
				return &Slice{P: &Pointer{O: o}, Off: I64C(0), Len: I64C(int64(len(rs))), Cap: I64C(int64(len(rs)))}
			}
			e.unsupported("[]rune of symbolic string")
		}
		if isStringType(to) {
			return v
		}
	case *Slice:
		if isStringType(to) {
			fs := fu.(*types.Slice)
			if isByteType(fs.Elem()) {
				if v.P == nil {
					return ConcStr("")
				}
				if v.Len.IsConst() && v.Len.Val == 0 {
					return ConcStr("")
				}
				a, off := e.sliceBytes(v)
				return e.mkString(a, off, v.Len)
			}
			// []rune -> string
			if v.Len.IsConst() {
				var sb strings.Builder
				for k := 0; k < int(v.Len.Val); k++ {
					r := e.sliceElem(v, k).(*Term)
					if !r.IsConst() {
						e.unsupported("symbolic []rune to string")
					}
					sb.WriteRune(rune(r.SVal()))
				}
				return ConcStr(sb.String())
			}
			e.unsupported("[]rune to string with symbolic length")
		}
		if _, ok := tu.(*types.Slice); ok {
			return v
		}
	case *Pointer:
		return v
	case *Closure, *ssa.Function:
		return v
	}
	if types.Identical(fu, tu) {
		return x
	}
	e.unsupported("convert %v -> %v (%T)", from, to, x)
	return nil
}

// mkString builds a string from array storage, concretising when all bytes are constants.
func (e *Engine) mkString(a, off, n *Term) *String {
	if n.IsConst() && off.IsConst() && n.Val <= 4096 {
		buf := make([]byte, n.Val)
		all := true
		for k := uint64(0); k < n.Val; k++ {
			b := Select(a, BVC(64, off.Val+k))
			if !b.IsConst() {
				all = false
				break
			}
			buf[k] = byte(b.Val)
		}
		if all {
			return ConcStr(string(buf))
		}
	}
	return &String{A: a, Off: off, Len: n}
}

// ---- strings ----

func (e *Engine) strConcat(a, b *String) Value {
	if a.Conc && b.Conc {
		return ConcStr(a.S + b.S)
	}
	if a.Conc && a.S == "" {
		return b
	}
	if b.Conc && b.S == "" {
		return a
	}
	aa, ao := a.arr()
	ba, bo := b.arr()
	an, bn := a.LenTerm(), b.LenTerm()
	r := ArrCopy(ZeroArr, aa, I64C(0), ao, an)
	r = ArrCopy(r, ba, an, bo, bn)
	return e.mkString(r, I64C(0), BVBin("bvadd", an, bn))
}

const maxStrCmp = 64

func (e *Engine) strEq(a, b *String) *Term {
	if a.Conc && b.Conc {
		return BoolC(a.S == b.S)
	}
	an, bn := a.LenTerm(), b.LenTerm()
	leq := Eq(an, bn)
	if leq.IsFalse() {
		return TFalse
	}
	// need a concrete bound on the compared length
	var n uint64
	switch {
	case an.IsConst():
		n = an.Val
	case bn.IsConst():
		n = bn.Val
	default:
		n = e.concretize(an, maxStrCmp, "string length in comparison")
	}
	if n > 4096 {
		e.unsupported("comparison of symbolic strings longer than 4096 bytes")
	}
	r := leq
	for k := uint64(0); k < n; k++ {
		kk := BVC(64, k)
		r = And(r, Eq(a.byteAt(kk), b.byteAt(kk)))
		if r.IsFalse() {
			return r
		}
	}
	return r
}

func (e *Engine) strLess(op token.Token, a, b *String) *Term {
	an := e.concretize(a.LenTerm(), maxStrCmp, "string length in ordering")
	bn := e.concretize(b.LenTerm(), maxStrCmp, "string length in ordering")
	n := an
	if bn < n {
		n = bn
	}
	// lexicographic: less = exists first differing position with a<b, or prefix and shorter
	less := BoolC(an < bn)
	eq := BoolC(an == bn)
	for k := int64(n) - 1; k >= 0; k-- {
		ak, bk := a.byteAt(I64C(k)), b.byteAt(I64C(k))
		less = Ite(Eq(ak, bk), less, BVCmp("bvult", ak, bk))
		eq = And(Eq(ak, bk), eq)
	}
	switch op {
	case token.LSS:
		return less
	case token.LEQ:
		return Or(less, eq)
	case token.GTR:
		return And(Not(less), Not(eq))
	default:
		return Not(less)
	}
}

// ---- equality ----

func (e *Engine) equal(x, y Value) *Term {
	switch a := x.(type) {
	case *Term:
		return Eq(a, y.(*Term))
	case *Float:
		return BoolC(a.F == y.(*Float).F)
	case *String:
		return e.strEq(a, y.(*String))
	case *Pointer:
		b, ok := y.(*Pointer)
		if !ok {
			return TFalse
		}
		if a.IsNil() || b.IsNil() {
			return BoolC(a.IsNil() && b.IsNil())
		}
		if a.O != b.O || len(a.Path) != len(b.Path) {
			return TFalse
		}
		for i := range a.Path {
			if a.Path[i] != b.Path[i] {
				return TFalse
			}
		}
		if (a.Sym == nil) != (b.Sym == nil) {
			return TFalse
		}
		if a.Sym != nil {
			return Eq(a.Sym, b.Sym)
		}
		return TTrue
	case *Struct:
		b := y.(*Struct)
		r := TTrue
		for i := range a.F {
			r = And(r, e.equal(a.F[i], b.F[i]))
			if r.IsFalse() {
				return r
			}
		}
		return r
	case *Array:
		b := y.(*Array)
		r := TTrue
		for i := range a.E {
			r = And(r, e.equal(a.E[i], b.E[i]))
			if r.IsFalse() {
				return r
			}
		}
		return r
	case *Bytes:
		b := y.(*Bytes)
		if !a.N.IsConst() {
			e.unsupported("equality of byte arrays with symbolic length")
		}
		if a.A == b.A {
			return TTrue
		}
		r := TTrue
		for i := uint64(0); i < a.N.Val; i++ {
			r = And(r, Eq(Select(a.A, BVC(64, i)), Select(b.A, BVC(64, i))))
			if r.IsFalse() {
				return r
			}
		}
		return r
	case *Iface:
		b, ok := y.(*Iface)
		if !ok {
			return TFalse
		}
		if a.T == nil || b.T == nil {
			return BoolC(a.T == nil && b.T == nil)
		}
		if !types.Identical(a.T, b.T) {
			return TFalse
		}
		if !types.Comparable(a.T) {
			e.goPanic("runtime error: comparing uncomparable type " + typeString(a.T))
		}
		return e.equal(a.V, b.V)
	case *MapObj:
		b, _ := y.(*MapObj)
		return BoolC(a == b)
	case *ChanObj:
		b, _ := y.(*ChanObj)
		return BoolC(a == b)
	case *Slice:
		// only comparison with nil is legal
		b := y.(*Slice)
		return BoolC(a.P == nil && b.P == nil)
	case *Closure:
		b, _ := y.(*Closure)
		return BoolC(a == nil && b == nil)
	case *ssa.Function:
		return BoolC(isNilFunc(x) && isNilFunc(y))
	}
	e.unsupported("equality on %T", x)
	return nil
}

// ---- maps ----

func (e *Engine) mapFind(m *MapObj, k Value) int {
	if m == nil {
		return -1
	}
	for i := range m.Entries {
		if e.branch(e.equal(m.Entries[i].K, k)) {
			return i
		}
	}
	return -1
}

func (e *Engine) mapSet(m *MapObj, k, v Value) {
	if i := e.mapFind(m, k); i >= 0 {
		m.Entries[i].V = v
		return
	}
	m.Entries = append(m.Entries, mapEntry{k, v})
}

func (e *Engine) mapDelete(m *MapObj, k Value) {
	if i := e.mapFind(m, k); i >= 0 {
		ne := make([]mapEntry, 0, len(m.Entries)-1)
		ne = append(ne, m.Entries[:i]...)
		ne = append(ne, m.Entries[i+1:]...)
		m.Entries = ne
	}
}

func (e *Engine) lookup(in *ssa.Lookup, x, k Value) Value {
	switch c := x.(type) {
	case *String:
		i := e.toI64(k.(*Term), in.Index.Type())
		e.boundsCheck(i, c.LenTerm(), "string")
		return c.byteAt(i)
	case *MapObj:
		mt := in.X.Type().Underlying().(*types.Map)
		i := e.mapFind(c, k)
		var v Value
		if i >= 0 {
			v = c.Entries[i].V
		} else {
			v = zero(mt.Elem())
		}
		if in.CommaOk {
			return Tuple{v, BoolC(i >= 0)}
		}
		return v
	}
	e.unsupported("Lookup on %T", x)
	return nil
}

// ---- range ----

type rangeIter struct {
	m    *MapObj
	keys []mapEntry
	s    *String
	pos  int
}

func (e *Engine) makeRange(x Value) Value {
	switch c := x.(type) {
	case *MapObj:
		it := &rangeIter{m: c}
		if c != nil {
			it.keys = append(it.keys, c.Entries...)
			if e.cfg.ReverseMaps {
				for i, j := 0, len(it.keys)-1; i < j; i, j = i+1, j-1 {
					it.keys[i], it.keys[j] = it.keys[j], it.keys[i]
				}
			}
		}
		return it
	case *String:
		return &rangeIter{s: c}
	}
	e.unsupported("Range on %T", x)
	return nil
}

func (e *Engine) next(in *ssa.Next, it *rangeIter) Value {
	if in.IsString {
		s := it.s
		n := e.concretize(s.LenTerm(), 4096, "string length in range")
		if it.pos >= int(n) {
			return Tuple{TFalse, I64C(0), BVC(32, 0)}
		}
		b := s.byteAt(I64C(int64(it.pos)))
		if b.IsConst() && s.Conc {
			r, sz := utf8.DecodeRuneInString(s.S[it.pos:])
			res := Tuple{TTrue, I64C(int64(it.pos)), BVC(32, uint64(r))}
			it.pos += sz
			return res
		}
		// symbolic content: ASCII only (stated bound)
		e.assumeASCII(b)
		res := Tuple{TTrue, I64C(int64(it.pos)), ZExt(b, 32)}
		it.pos++
		return res
	}
	// map: skip entries deleted during iteration
	for it.pos < len(it.keys) {
		k := it.keys[it.pos]
		it.pos++
		// still present?
		present := false
		var cur Value
		for _, en := range it.m.Entries {
			if sameKey(en.K, k.K) {
				present = true
				cur = en.V
				break
			}
		}
		if present {
			return Tuple{TTrue, k.K, cur}
		}
	}
	mt := it.m
	var kz, vz Value = nil, nil
	if mt != nil {
		kz, vz = zero(mt.T.Key()), zero(mt.T.Elem())
	} else {
		tt := in.Type().(*types.Tuple)
		zz := func(t types.Type) Value {
			if b, ok := t.(*types.Basic); ok && b.Kind() == types.Invalid {
				return nil // key/value unused by the loop
			}
			return zero(t)
		}
		kz, vz = zz(tt.At(1).Type()), zz(tt.At(2).Type())
	}
	return Tuple{TFalse, kz, vz}
}

// sameKey is identity of key values as stored (no solver involved).
func sameKey(a, b Value) bool {
	switch x := a.(type) {
	case *Term:
		return x == b.(*Term)
	case *String:
		y := b.(*String)
		if x.Conc && y.Conc {
			return x.S == y.S
		}
		return x == y
	case *Pointer:
		y := b.(*Pointer)
		if x.O != y.O || len(x.Path) != len(y.Path) {
			return false
		}
		for i := range x.Path {
			if x.Path[i] != y.Path[i] {
				return false
			}
		}
		return true
	case *Iface:
		y := b.(*Iface)
		if x.T == nil || y.T == nil {
			return x.T == nil && y.T == nil
		}
		return types.Identical(x.T, y.T) && sameKey(x.V, y.V)
	case *Bytes:
		y := b.(*Bytes)
		return x.A == y.A
	case *Struct:
		y := b.(*Struct)
		for i := range x.F {
			if !sameKey(x.F[i], y.F[i]) {
				return false
			}
		}
		return true
	}
	return a == b
}

// assumeASCII restricts a symbolic string byte to < 0x80 and records the bound.
func (e *Engine) assumeASCII(b *Term) {
	e.StubsUsed["assume: symbolic string bytes are ASCII (<0x80) where decoded as runes"]++
	e.assume(BVCmp("bvult", b, BVC(8, 0x80)))
}

// ---- builtins ----

func (e *Engine) builtin(b *ssa.Builtin, args []Value, cs *callSite) Value {
	switch b.Name() {
	case "len":
		switch x := args[0].(type) {
		case *Slice:
			return x.Len
		case *String:
			return x.LenTerm()
		case *MapObj:
			if x == nil {
				return I64C(0)
			}
			return I64C(int64(len(x.Entries)))
		case *ChanObj:
			if x == nil {
				return I64C(0)
			}
			return I64C(int64(len(x.Buf)))
		case *Array:
			return I64C(int64(len(x.E)))
		case *Bytes:
			return x.N
		case *Pointer:
			// pointer to array
			at := cs.instr.Common().Args[0].Type().Underlying().(*types.Pointer).Elem().Underlying().(*types.Array)
			return I64C(at.Len())
		}
	case "cap":
		switch x := args[0].(type) {
		case *Slice:
			return x.Cap
		case *ChanObj:
			if x == nil {
				return I64C(0)
			}
			return I64C(int64(x.Cap))
		case *Array:
			return I64C(int64(len(x.E)))
		case *Bytes:
			return x.N
		case *Pointer:
			at := cs.instr.Common().Args[0].Type().Underlying().(*types.Pointer).Elem().Underlying().(*types.Array)
			return I64C(at.Len())
		}
	case "append":
		var t types.Type
		if cs != nil {
			t = cs.instr.Common().Args[0].Type()
		}
		return e.appendOp(args[0].(*Slice), args[1], t)
	case "copy":
		var t types.Type
		if cs != nil {
			t = cs.instr.Common().Args[0].Type()
		}
		return e.copyOp(args[0].(*Slice), args[1], t)
	case "delete":
		m := args[0].(*MapObj)
		if m != nil {
			e.mapDelete(m, args[1])
		}
		return nil
	case "clear":
		switch x := args[0].(type) {
		case *MapObj:
			if x != nil {
				x.Entries = nil
			}
		case *Slice:
			if x.P == nil {
				return nil
			}
			if e.isByteSlice(x, nil) {
				a, off := e.sliceBytes(x)
				e.setSliceBytes(x, ArrFill(a, off, x.Len, BVC(8, 0)))
			} else {
				n := e.concretize(x.Len, e.cfg.MaxAlloc, "clear length")
				c := e.container(x.P).(*Array)
				z := c.Z
				if z == nil && len(c.E) > 0 {
					st := cs.instr.Common().Args[0].Type().Underlying().(*types.Slice)
					z = zero(st.Elem())
				}
				for k := 0; k < int(n); k++ {
					e.setSliceElem(x, k, z)
				}
			}
		}
		return nil
	case "min", "max":
		t := cs.instr.Common().Args[0].Type()
		_, signed, ok := typeIntInfo(t)
		if !ok {
			if isFloatType(t) {
				r := args[0].(*Float).F
				for _, a := range args[1:] {
					if b.Name() == "min" {
						r = math.Min(r, a.(*Float).F)
					} else {
						r = math.Max(r, a.(*Float).F)
					}
				}
				return &Float{r}
			}
			e.unsupported("min/max on %v", t)
		}
		r := args[0].(*Term)
		for _, a := range args[1:] {
			at := a.(*Term)
			var lt *Term
			if signed {
				lt = BVCmp("bvslt", at, r)
			} else {
				lt = BVCmp("bvult", at, r)
			}
			if b.Name() == "min" {
				r = Ite(lt, at, r)
			} else {
				r = Ite(lt, r, at)
			}
		}
		return r
	case "close":
		e.chanClose(args[0].(*ChanObj))
		return nil
	case "recover":
		return e.doRecover()
	case "print", "println":
		return nil
	case "ssa:wrapnilchk":
		p := args[0].(*Pointer)
		if p.IsNil() {
			e.goPanic("value method called using nil pointer")
		}
		return p
	case "new":
		e.unsupported("builtin new as value")
	case "SliceData":
		s := args[0].(*Slice)
		if s.P == nil {
			return NilPtr
		}
		if _, ok := e.container(s.P).(*Bytes); ok {
			return &Pointer{O: s.P.O, Path: s.P.Path, Sym: s.Off}
		}
		k := e.concretize(s.Off, e.cfg.MaxAlloc, "SliceData offset")
		return &Pointer{O: s.P.O, Path: extendPath(s.P.Path, int(k))}
	case "String":
		p := args[0].(*Pointer)
		n := e.toI64(args[1].(*Term), cs.instr.Common().Args[1].Type())
		if p.IsNil() {
			return ConcStr("")
		}
		b, ok := e.container(&Pointer{O: p.O, Path: p.Path}).(*Bytes)
		if !ok || p.Sym == nil {
			e.unsupported("unsafe.String on non-byte storage")
		}
		return e.mkString(b.A, p.Sym, n)
	case "StringData":
		s := args[0].(*String)
		a, off := s.arr()
		o := e.newObject(nil, &Bytes{A: a, N: BVBin("bvadd", off, s.LenTerm())}, "StringData")
		return &Pointer{O: o, Sym: off}
	case "Slice":
		p := args[0].(*Pointer)
		n := e.toI64(args[1].(*Term), cs.instr.Common().Args[1].Type())
		if p.IsNil() {
			return &Slice{Off: I64C(0), Len: I64C(0), Cap: I64C(0)}
		}
		if p.Sym != nil {
			return &Slice{P: &Pointer{O: p.O, Path: p.Path}, Off: p.Sym, Len: n, Cap: n}
		}
		if len(p.Path) == 0 {
			e.unsupported("unsafe.Slice on whole object")
		}
		return &Slice{P: &Pointer{O: p.O, Path: p.Path[:len(p.Path)-1]}, Off: I64C(int64(p.Path[len(p.Path)-1])), Len: n, Cap: n}
	}
	e.unsupported("builtin %s on %T", b.Name(), args[0])
	return nil
}

func (e *Engine) doRecover() Value {
	g := e.cur
	if len(g.frames) == 0 {
		return NilIface
	}
	f := e.top(g)
	if f.isDefer && f.panicV != nil && !f.panicV.Recovered && !f.owner.recovered {
		f.owner.recovered = true
		v := f.panicV.V
		f.panicV = &PanicV{Recovered: true, Msg: f.panicV.Msg}
		if iv, ok := v.(*Iface); ok {
			return iv
		}
		return NilIface
	}
	return NilIface
}

func (e *Engine) appendOp(s *Slice, add Value, t types.Type) Value {
	var addLen *Term
	var as *Slice
	var astr *String
	switch a := add.(type) {
	case *Slice:
		as = a
		addLen = a.Len
	case *String:
		astr = a
		addLen = a.LenTerm()
	default:
		e.unsupported("append of %T", add)
	}
	if addLen.IsConst() && addLen.Val == 0 {
		return s
	}
	isBytes := astr != nil || e.isByteSlice(s, t) || (as != nil && e.isByteSlice(as, nil))
	newLen := BVBin("bvadd", s.Len, addLen)
	inPlace := s.P != nil && e.branch(BVCmp("bvsle", newLen, s.Cap))
	if isBytes {
		var src, soff *Term
		if astr != nil {
			src, soff = astr.arr()
		} else {
			src, soff = e.sliceBytes(as)
		}
		if inPlace {
			a, off := e.sliceBytes(s)
			e.setSliceBytes(s, ArrCopy(a, src, BVBin("bvadd", off, s.Len), soff, addLen))
			return &Slice{P: s.P, Off: s.Off, Len: newLen, Cap: s.Cap}
		}
		// new storage
		a := ZeroArr
		if s.P != nil {
			oa, ooff := e.sliceBytes(s)
			a = ArrCopy(a, oa, I64C(0), ooff, s.Len)
		}
		a = ArrCopy(a, src, s.Len, soff, addLen)
		ncap := e.growCap(s.Cap, newLen)
		e.noteAlloc(ncap)
		o := e.newObject(nil, &Bytes{A: a, N: ncap}, "append")
		return &Slice{P: &Pointer{O: o}, Off: I64C(0), Len: newLen, Cap: ncap}
	}
	n := int(e.concretize(s.Len, e.cfg.MaxAlloc, "append length"))
	k := int(e.concretize(addLen, e.cfg.MaxAlloc, "append count"))
	if inPlace {
		for j := 0; j < k; j++ {
			e.setSliceElem(s, n+j, e.sliceElem(as, j))
		}
		return &Slice{P: s.P, Off: s.Off, Len: newLen, Cap: s.Cap}
	}
	el := make([]Value, 0, n+k)
	for j := 0; j < n; j++ {
		el = append(el, e.sliceElem(s, j))
	}
	for j := 0; j < k; j++ {
		el = append(el, e.sliceElem(as, j))
	}
	var z Value
	if s.P != nil {
		z = e.container(s.P).(*Array).Z
	}
	if z == nil && as.P != nil {
		z = e.container(as.P).(*Array).Z
	}
	if z == nil && t != nil {
		z = zero(t.Underlying().(*types.Slice).Elem())
	}
	ncap := e.growCap(s.Cap, newLen)
	o := e.newObject(nil, &Array{E: el, Z: z}, "append")
	return &Slice{P: &Pointer{O: o}, Off: I64C(0), Len: newLen, Cap: ncap}
}

// growCap models Go's amortised growth (doubling); the exact policy is an
// implementation detail programs must not rely on.
func (e *Engine) growCap(oldCap, need *Term) *Term {
	dbl := BVBin("bvadd", oldCap, oldCap)
	return Ite(BVCmp("bvslt", dbl, need), need, dbl)
}

func (e *Engine) copyOp(dst *Slice, src Value, t types.Type) Value {
	var slen *Term
	var ss *Slice
	var sstr *String
	switch a := src.(type) {
	case *Slice:
		ss = a
		slen = a.Len
	case *String:
		sstr = a
		slen = a.LenTerm()
	}
	n := Ite(BVCmp("bvslt", slen, dst.Len), slen, dst.Len)
	if n.IsConst() && n.Val == 0 {
		return n
	}
	if dst.P == nil || (ss != nil && ss.P == nil) {
		return I64C(0)
	}
	if e.isByteSlice(dst, t) {
		var sa, soff *Term
		if sstr != nil {
			sa, soff = sstr.arr()
		} else {
			sa, soff = e.sliceBytes(ss)
		}
		da, doff := e.sliceBytes(dst)
		e.setSliceBytes(dst, ArrCopy(da, sa, doff, soff, n))
		return n
	}
	k := int(e.concretize(n, e.cfg.MaxAlloc, "copy length"))
	vals := make([]Value, k)
	for j := 0; j < k; j++ {
		vals[j] = e.sliceElem(ss, j)
	}
	for j := 0; j < k; j++ {
		e.setSliceElem(dst, j, vals[j])
	}
	return I64C(int64(k))
}

var _ = fmt.Sprintf
