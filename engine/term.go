package main

// SMT term layer: hash-consed terms over Bool, (_ BitVec n) and
// (Array (_ BitVec 64) (_ BitVec 8)), with constant folding and a few local
// simplifications. Terms are immutable and shared across paths; ids are stable
// for the lifetime of the process, which is what lets the solver keep
// definitions of a common path prefix between re-executions.

import (
	"fmt"
	"math/bits"
	"strings"
)

type SortKind int

const (
	SBool SortKind = iota
	SBV
	SArr
)

type Sort struct {
	K SortKind
	W int // bit width for SBV
}

func (s Sort) String() string {
	switch s.K {
	case SBool:
		return "Bool"
	case SBV:
		return fmt.Sprintf("(_ BitVec %d)", s.W)
	default:
		return "(Array (_ BitVec 64) (_ BitVec 8))"
	}
}

var (
	BoolSort = Sort{SBool, 0}
	ArrSort  = Sort{SArr, 0}
)

func BV(w int) Sort { return Sort{SBV, w} }

type Term struct {
	Op   string
	S    Sort
	Args []*Term
	Val  uint64 // const value (BV up to 64 bits, Bool 0/1); extract: hi<<8|lo; extend: amount
	Name string // var name
	id   int
}

type termKey struct {
	op         string
	s          Sort
	val        uint64
	name       string
	a0, a1, a2 int
	rest       string
}

var (
	termTab  = map[termKey]*Term{}
	termNext = 1
)

func mk(op string, s Sort, val uint64, name string, args ...*Term) *Term {
	k := termKey{op: op, s: s, val: val, name: name}
	if len(args) > 0 {
		k.a0 = args[0].id
	}
	if len(args) > 1 {
		k.a1 = args[1].id
	}
	if len(args) > 2 {
		k.a2 = args[2].id
	}
	if len(args) > 3 {
		var sb strings.Builder
		for _, a := range args[3:] {
			fmt.Fprintf(&sb, "%d,", a.id)
		}
		k.rest = sb.String()
	}
	if t, ok := termTab[k]; ok {
		return t
	}
	t := &Term{Op: op, S: s, Args: args, Val: val, Name: name, id: termNext}
	termNext++
	termTab[k] = t
	return t
}

func mask(w int) uint64 {
	if w >= 64 {
		return ^uint64(0)
	}
	return (uint64(1) << uint(w)) - 1
}

func (t *Term) IsConst() bool { return t.Op == "const" }
func (t *Term) IsTrue() bool  { return t.Op == "const" && t.S.K == SBool && t.Val == 1 }
func (t *Term) IsFalse() bool { return t.Op == "const" && t.S.K == SBool && t.Val == 0 }

// Signed value of a BV constant.
func (t *Term) SVal() int64 {
	w := t.S.W
	v := t.Val
	if w < 64 && v&(uint64(1)<<uint(w-1)) != 0 {
		v |= ^mask(w)
	}
	return int64(v)
}

var (
	TTrue  = mk("const", BoolSort, 1, "")
	TFalse = mk("const", BoolSort, 0, "")
)

func BoolC(b bool) *Term {
	if b {
		return TTrue
	}
	return TFalse
}

func BVC(w int, v uint64) *Term { return mk("const", BV(w), v&mask(w), "") }
func I64C(v int64) *Term        { return BVC(64, uint64(v)) }

func Var(name string, s Sort) *Term { return mk("var", s, 0, name) }

func Not(a *Term) *Term {
	if a.IsConst() {
		return BoolC(a.Val == 0)
	}
	if a.Op == "not" {
		return a.Args[0]
	}
	return mk("not", BoolSort, 0, "", a)
}

func And(a, b *Term) *Term {
	if a.IsFalse() || b.IsFalse() {
		return TFalse
	}
	if a.IsTrue() {
		return b
	}
	if b.IsTrue() {
		return a
	}
	if a == b {
		return a
	}
	return mk("and", BoolSort, 0, "", a, b)
}

func Or(a, b *Term) *Term {
	if a.IsTrue() || b.IsTrue() {
		return TTrue
	}
	if a.IsFalse() {
		return b
	}
	if b.IsFalse() {
		return a
	}
	if a == b {
		return a
	}
	return mk("or", BoolSort, 0, "", a, b)
}

func Implies(a, b *Term) *Term { return Or(Not(a), b) }

func Ite(c, a, b *Term) *Term {
	if c.IsTrue() {
		return a
	}
	if c.IsFalse() {
		return b
	}
	if a == b {
		return a
	}
	if a.S.K == SBool {
		if a.IsTrue() && b.IsFalse() {
			return c
		}
		if a.IsFalse() && b.IsTrue() {
			return Not(c)
		}
	}
	return mk("ite", a.S, 0, "", c, a, b)
}

func Eq(a, b *Term) *Term {
	if a.S != b.S {
		panic(fmt.Sprintf("Eq sort mismatch %v %v", a.S, b.S))
	}
	if a == b {
		return TTrue
	}
	if a.IsConst() && b.IsConst() {
		return BoolC(a.Val == b.Val)
	}
	if a.S.K == SBool {
		if a.IsConst() {
			if a.Val == 1 {
				return b
			}
			return Not(b)
		}
		if b.IsConst() {
			if b.Val == 1 {
				return a
			}
			return Not(a)
		}
	}
	if a.id > b.id {
		a, b = b, a
	}
	return mk("=", BoolSort, 0, "", a, b)
}

// ---- bit-vector operations ----

func fold2(op string, w int, x, y uint64) (uint64, bool) {
	m := mask(w)
	sx := func(v uint64) int64 {
		if w < 64 && v&(uint64(1)<<uint(w-1)) != 0 {
			v |= ^m
		}
		return int64(v)
	}
	switch op {
	case "bvadd":
		return (x + y) & m, true
	case "bvsub":
		return (x - y) & m, true
	case "bvmul":
		return (x * y) & m, true
	case "bvand":
		return x & y, true
	case "bvor":
		return x | y, true
	case "bvxor":
		return x ^ y, true
	case "bvudiv":
		if y == 0 {
			return m, true
		}
		return x / y, true
	case "bvurem":
		if y == 0 {
			return x, true
		}
		return x % y, true
	case "bvsdiv":
		if y == 0 {
			if sx(x) < 0 {
				return 1, true
			}
			return m, true
		}
		a, b := sx(x), sx(y)
		if b == -1 {
			return uint64(-a) & m, true
		}
		return uint64(a/b) & m, true
	case "bvsrem":
		if y == 0 {
			return x, true
		}
		a, b := sx(x), sx(y)
		if b == -1 {
			return 0, true
		}
		return uint64(a%b) & m, true
	case "bvshl":
		if y >= uint64(w) {
			return 0, true
		}
		return (x << y) & m, true
	case "bvlshr":
		if y >= uint64(w) {
			return 0, true
		}
		return x >> y, true
	case "bvashr":
		a := sx(x)
		if y >= uint64(w) {
			if a < 0 {
				return m, true
			}
			return 0, true
		}
		return uint64(a>>y) & m, true
	}
	return 0, false
}

func BVBin(op string, a, b *Term) *Term {
	if a.S != b.S || a.S.K != SBV {
		panic(fmt.Sprintf("BVBin %s sort mismatch %v %v", op, a.S, b.S))
	}
	w := a.S.W
	if a.IsConst() && b.IsConst() {
		if v, ok := fold2(op, w, a.Val, b.Val); ok {
			return BVC(w, v)
		}
	}
	switch op {
	case "bvadd":
		if a.IsConst() && a.Val == 0 {
			return b
		}
		if b.IsConst() && b.Val == 0 {
			return a
		}
		// (x + c1) + c2 -> x + (c1+c2)
		if b.IsConst() && a.Op == "bvadd" && a.Args[1].IsConst() {
			return BVBin("bvadd", a.Args[0], BVC(w, a.Args[1].Val+b.Val))
		}
		if a.IsConst() && !b.IsConst() {
			a, b = b, a
		}
		// (x - y) + y -> x
		if a.Op == "bvsub" && a.Args[1] == b {
			return a.Args[0]
		}
	case "bvsub":
		if b.IsConst() && b.Val == 0 {
			return a
		}
		if a == b {
			return BVC(w, 0)
		}
		if b.IsConst() {
			return BVBin("bvadd", a, BVC(w, -b.Val))
		}
		// (x + y) - y -> x ; (x + y) - x -> y
		if a.Op == "bvadd" {
			if a.Args[1] == b {
				return a.Args[0]
			}
			if a.Args[0] == b {
				return a.Args[1]
			}
		}
	case "bvmul":
		if a.IsConst() && !b.IsConst() {
			a, b = b, a
		}
		if b.IsConst() {
			if b.Val == 0 {
				return b
			}
			if b.Val == 1 {
				return a
			}
		}
	case "bvand":
		if a.IsConst() && !b.IsConst() {
			a, b = b, a
		}
		if b.IsConst() {
			if b.Val == 0 {
				return b
			}
			if b.Val == mask(w) {
				return a
			}
		}
		if a == b {
			return a
		}
	case "bvor":
		if a.IsConst() && !b.IsConst() {
			a, b = b, a
		}
		if b.IsConst() {
			if b.Val == 0 {
				return a
			}
			if b.Val == mask(w) {
				return b
			}
		}
		if a == b {
			return a
		}
	case "bvxor":
		if a.IsConst() && !b.IsConst() {
			a, b = b, a
		}
		if b.IsConst() && b.Val == 0 {
			return a
		}
		if a == b {
			return BVC(w, 0)
		}
	case "bvshl", "bvlshr", "bvashr":
		if b.IsConst() && b.Val == 0 {
			return a
		}
		if b.IsConst() && b.Val >= uint64(w) && op != "bvashr" {
			return BVC(w, 0)
		}
	case "bvudiv", "bvsdiv":
		if b.IsConst() && b.Val == 1 {
			return a
		}
		if op == "bvudiv" && b.IsConst() && b.Val != 0 && b.Val&(b.Val-1) == 0 {
			k := log2(b.Val)
			return ZExt(Extract(w-1, k, a), w)
		}
	case "bvurem":
		if b.IsConst() && b.Val == 1 {
			return BVC(w, 0)
		}
		if b.IsConst() && b.Val != 0 && b.Val&(b.Val-1) == 0 {
			k := log2(b.Val)
			return ZExt(Extract(k-1, 0, a), w)
		}
	}
	return mk(op, a.S, 0, "", a, b)
}

func BVNeg(a *Term) *Term {
	if a.IsConst() {
		return BVC(a.S.W, -a.Val)
	}
	return mk("bvneg", a.S, 0, "", a)
}

func BVNot(a *Term) *Term {
	if a.IsConst() {
		return BVC(a.S.W, ^a.Val)
	}
	return mk("bvnot", a.S, 0, "", a)
}

func BVCmp(op string, a, b *Term) *Term {
	if a.S != b.S || a.S.K != SBV {
		panic(fmt.Sprintf("BVCmp %s sort mismatch %v %v", op, a.S, b.S))
	}
	if a.IsConst() && b.IsConst() {
		switch op {
		case "bvult":
			return BoolC(a.Val < b.Val)
		case "bvule":
			return BoolC(a.Val <= b.Val)
		case "bvslt":
			return BoolC(a.SVal() < b.SVal())
		case "bvsle":
			return BoolC(a.SVal() <= b.SVal())
		}
	}
	if a == b {
		return BoolC(op == "bvule" || op == "bvsle")
	}
	switch op {
	case "bvult":
		if b.IsConst() && b.Val == 0 {
			return TFalse
		}
	case "bvule":
		if a.IsConst() && a.Val == 0 {
			return TTrue
		}
		if b.IsConst() && b.Val == mask(a.S.W) {
			return TTrue
		}
	}
	// zero-extended value compared with a constant beyond its range
	if op == "bvult" || op == "bvule" || op == "bvslt" || op == "bvsle" {
		if a.Op == "zext" && b.IsConst() {
			iw := a.Args[0].S.W
			if iw < 63 && b.SVal() >= 0 && b.Val > mask(iw) {
				return TTrue
			}
		}
	}
	return mk(op, BoolSort, 0, "", a, b)
}

func Extract(hi, lo int, a *Term) *Term {
	if lo == 0 && hi == a.S.W-1 {
		return a
	}
	w := hi - lo + 1
	if a.IsConst() {
		return BVC(w, a.Val>>uint(lo))
	}
	if lo == 0 && (a.Op == "zext" || a.Op == "sext") {
		iw := a.Args[0].S.W
		if w == iw {
			return a.Args[0]
		}
		if w < iw {
			return Extract(hi, 0, a.Args[0])
		}
		if a.Op == "zext" {
			return ZExt(a.Args[0], w)
		}
		return SExt(a.Args[0], w)
	}
	if a.Op == "extract" {
		ilo := int(a.Val & 0xff)
		return Extract(hi+ilo, lo+ilo, a.Args[0])
	}
	return mk("extract", BV(w), uint64(hi)<<8|uint64(lo), "", a)
}

func ZExt(a *Term, w int) *Term {
	if w == a.S.W {
		return a
	}
	if a.IsConst() {
		return BVC(w, a.Val)
	}
	if a.Op == "zext" {
		return ZExt(a.Args[0], w)
	}
	return mk("zext", BV(w), uint64(w-a.S.W), "", a)
}

func SExt(a *Term, w int) *Term {
	if w == a.S.W {
		return a
	}
	if a.IsConst() {
		return BVC(w, uint64(a.SVal()))
	}
	if a.Op == "zext" {
		return ZExt(a.Args[0], w)
	}
	return mk("sext", BV(w), uint64(w-a.S.W), "", a)
}

// Concat hi:lo
func Concat(hi, lo *Term) *Term {
	w := hi.S.W + lo.S.W
	if hi.IsConst() && lo.IsConst() && w <= 64 {
		return BVC(w, hi.Val<<uint(lo.S.W)|lo.Val)
	}
	return mk("concat", BV(w), 0, "", hi, lo)
}

// ---- arrays ----

func ConstArr(v *Term) *Term { return mk("constarr", ArrSort, 0, "", v) }

var ZeroArr = ConstArr(BVC(8, 0))

func Select(a, i *Term) *Term {
	if a.S.K != SArr || i.S != BV(64) {
		panic("Select sort")
	}
	for {
		switch a.Op {
		case "constarr":
			return a.Args[0]
		case "store":
			j := a.Args[1]
			if j == i {
				return a.Args[2]
			}
			if j.IsConst() && i.IsConst() {
				a = a.Args[0]
				continue
			}
		case "copy":
			// copy(dst, src, dstoff, srcoff, n)
			dst, src, doff, soff, n := a.Args[0], a.Args[1], a.Args[2], a.Args[3], a.Args[4]
			if i.IsConst() && doff.IsConst() && n.IsConst() {
				if i.Val >= doff.Val && i.Val-doff.Val < n.Val {
					return Select(src, BVBin("bvadd", BVC(64, i.Val-doff.Val), soff))
				}
				a = dst
				continue
			}
		}
		break
	}
	// lookup in a constant table (e.g. a [256]byte popcount table) with a
	// byte-sized symbolic index: a multiplexer tree bit-blasts far better than
	// a 256-deep store chain
	if i.Op == "zext" && i.Args[0].S.W == 8 {
		if tab := constTable(a); tab != nil {
			return muxTable(tab, i.Args[0], 7, 0)
		}
	}
	return mk("select", BV(8), 0, "", a, i)
}

var constTableMemo = map[int][]uint8{}

// constTable returns the first 256 entries of a when a is a store chain of
// constants over a constant array, nil otherwise.
func constTable(a *Term) []uint8 {
	if t, ok := constTableMemo[a.id]; ok {
		return t
	}
	tab := make([]uint8, 256)
	set := make([]bool, 256)
	x := a
	n := 0
	for x.Op == "store" {
		idx, v := x.Args[1], x.Args[2]
		if !idx.IsConst() || !v.IsConst() {
			constTableMemo[a.id] = nil
			return nil
		}
		if idx.Val < 256 && !set[idx.Val] {
			tab[idx.Val] = uint8(v.Val)
			set[idx.Val] = true
		}
		x = x.Args[0]
		n++
	}
	if x.Op != "constarr" || !x.Args[0].IsConst() || n < 16 {
		constTableMemo[a.id] = nil
		return nil
	}
	for k := range tab {
		if !set[k] {
			tab[k] = uint8(x.Args[0].Val)
		}
	}
	constTableMemo[a.id] = tab
	return tab
}

// muxTable selects tab[base + idx[bit..0]] with a balanced ite tree.
func muxTable(tab []uint8, idx *Term, bit int, base int) *Term {
	if bit < 0 {
		return BVC(8, uint64(tab[base]))
	}
	hi := muxTable(tab, idx, bit-1, base+(1<<uint(bit)))
	lo := muxTable(tab, idx, bit-1, base)
	if hi == lo {
		return hi
	}
	return Ite(Eq(Extract(bit, bit, idx), BVC(1, 1)), hi, lo)
}

func Store(a, i, v *Term) *Term {
	if a.S.K != SArr || i.S != BV(64) || v.S != BV(8) {
		panic("Store sort")
	}
	if a.Op == "store" && a.Args[1] == i {
		a = a.Args[0]
	}
	if a.Op == "constarr" && a.Args[0] == v {
		return a
	}
	return mk("store", ArrSort, 0, "", a, i, v)
}

// ArrCopy returns dst with dst[doff+k] = src[soff+k] for 0<=k<n.
func ArrCopy(dst, src, doff, soff, n *Term) *Term {
	if n.IsConst() && n.Val == 0 {
		return dst
	}
	if n.IsConst() && n.Val <= 64 {
		r := dst
		for k := uint64(0); k < n.Val; k++ {
			kk := BVC(64, k)
			r = Store(r, BVBin("bvadd", doff, kk), Select(src, BVBin("bvadd", soff, kk)))
		}
		return r
	}
	return mk("copy", ArrSort, 0, "", dst, src, doff, soff, n)
}

// ArrFill returns dst with dst[off+k] = v for 0<=k<n.
func ArrFill(dst, off, n, v *Term) *Term {
	if n.IsConst() && n.Val == 0 {
		return dst
	}
	if dst.Op == "constarr" && dst.Args[0] == v {
		return dst
	}
	return ArrCopy(dst, ConstArr(v), off, BVC(64, 0), n)
}

// ---- printing ----

func bvLit(w int, v uint64) string {
	if w%4 == 0 {
		return fmt.Sprintf("#x%0*x", w/4, v)
	}
	return fmt.Sprintf("#b%0*b", w, v)
}

// render prints the operator application with child references produced by ref.
func (t *Term) render(ref func(*Term) string) string {
	switch t.Op {
	case "const":
		if t.S.K == SBool {
			if t.Val == 1 {
				return "true"
			}
			return "false"
		}
		return bvLit(t.S.W, t.Val)
	case "var":
		return t.Name
	case "extract":
		return fmt.Sprintf("((_ extract %d %d) %s)", t.Val>>8, t.Val&0xff, ref(t.Args[0]))
	case "zext":
		return fmt.Sprintf("((_ zero_extend %d) %s)", t.Val, ref(t.Args[0]))
	case "sext":
		return fmt.Sprintf("((_ sign_extend %d) %s)", t.Val, ref(t.Args[0]))
	case "constarr":
		return fmt.Sprintf("((as const (Array (_ BitVec 64) (_ BitVec 8))) %s)", ref(t.Args[0]))
	case "copy":
		d, s, do, so, n := ref(t.Args[0]), ref(t.Args[1]), ref(t.Args[2]), ref(t.Args[3]), ref(t.Args[4])
		return fmt.Sprintf("(lambda ((ci (_ BitVec 64))) (ite (bvult (bvsub ci %s) %s) (select %s (bvadd (bvsub ci %s) %s)) (select %s ci)))", do, n, s, do, so, d)
	}
	var sb strings.Builder
	sb.WriteString("(")
	sb.WriteString(t.Op)
	for _, a := range t.Args {
		sb.WriteString(" ")
		sb.WriteString(ref(a))
	}
	sb.WriteString(")")
	return sb.String()
}

func (t *Term) leaf() bool { return t.Op == "const" || t.Op == "var" }

// String renders the term as a tree (debugging / small terms only).
func (t *Term) String() string {
	var ref func(*Term) string
	ref = func(x *Term) string { return x.render(ref) }
	return ref(t)
}

// Vars collects variable terms reachable from t.
func (t *Term) Vars(seen map[int]bool, out *[]*Term) {
	if seen[t.id] {
		return
	}
	seen[t.id] = true
	if t.Op == "var" {
		*out = append(*out, t)
	}
	for _, a := range t.Args {
		a.Vars(seen, out)
	}
}

// Eval evaluates a term under an assignment of variables (for BV/Bool only;
// arrays are given as byte maps with default 0). Used for cheap branch
// filtering and for tests.
type Model struct {
	BV  map[string]uint64
	Arr map[string]map[uint64]byte
}

func log2(x uint64) int { return bits.Len64(x) - 1 }
