package main

// Model of encoding/binary.Read / Write / Size (reflection based in the standard
// library): a per-type fixed-size encoder/decoder over SMT byte terms. The
// model is validated against the real package by the native replays (the
// harnesses that use it compare the produced bytes with BEP layouts written
// out independently).

import (
	"go/types"
	"strings"
)

func (e *Engine) binOrderBig(order Value) bool {
	i, ok := order.(*Iface)
	if !ok || i.T == nil {
		e.unsupported("binary: nil byte order")
	}
	n := typeString(i.T)
	if strings.Contains(n, "bigEndian") {
		return true
	}
	if strings.Contains(n, "littleEndian") {
		return false
	}
	e.unsupported("binary: unknown byte order %s", n)
	return true
}

// binEncode appends the encoding of v (of static type t) to out.
func (e *Engine) binEncode(out []*Term, v Value, t types.Type, big bool) []*Term {
	switch u := t.Underlying().(type) {
	case *types.Basic:
		if u.Info()&types.IsBoolean != 0 {
			return append(out, Ite(v.(*Term), BVC(8, 1), BVC(8, 0)))
		}
		w, _, ok := intWidth(u)
		if !ok || u.Kind() == types.Int || u.Kind() == types.Uint || u.Kind() == types.Uintptr {
			e.unsupported("binary: unsupported basic type %v", t)
		}
		x := v.(*Term)
		n := w / 8
		for k := 0; k < n; k++ {
			var idx int
			if big {
				idx = n - 1 - k
			} else {
				idx = k
			}
			out = append(out, Extract(idx*8+7, idx*8, x))
		}
		return out
	case *types.Array:
		switch a := v.(type) {
		case *Bytes:
			for k := int64(0); k < u.Len(); k++ {
				out = append(out, Select(a.A, I64C(k)))
			}
		case *Array:
			for k := range a.E {
				out = e.binEncode(out, a.E[k], u.Elem(), big)
			}
		}
		return out
	case *types.Struct:
		s := v.(*Struct)
		for k := 0; k < u.NumFields(); k++ {
			out = e.binEncode(out, s.F[k], u.Field(k).Type(), big)
		}
		return out
	case *types.Pointer:
		return e.binEncode(out, e.load(v.(*Pointer)), u.Elem(), big)
	case *types.Slice:
		s := v.(*Slice)
		n := int(e.concretize(s.Len, 4096, "binary.Write slice length"))
		if isByteType(u.Elem()) {
			a, off := e.sliceBytes(s)
			for k := 0; k < n; k++ {
				out = append(out, Select(a, BVBin("bvadd", off, I64C(int64(k)))))
			}
			return out
		}
		for k := 0; k < n; k++ {
			out = e.binEncode(out, e.sliceElem(s, k), u.Elem(), big)
		}
		return out
	}
	e.unsupported("binary: unsupported type %v", t)
	return out
}

func (e *Engine) binSize(t types.Type) int {
	switch u := t.Underlying().(type) {
	case *types.Basic:
		if u.Info()&types.IsBoolean != 0 {
			return 1
		}
		w, _, ok := intWidth(u)
		if !ok {
			e.unsupported("binary: size of %v", t)
		}
		return w / 8
	case *types.Array:
		return int(u.Len()) * e.binSize(u.Elem())
	case *types.Struct:
		n := 0
		for k := 0; k < u.NumFields(); k++ {
			n += e.binSize(u.Field(k).Type())
		}
		return n
	case *types.Pointer:
		return e.binSize(u.Elem())
	}
	e.unsupported("binary: size of %v", t)
	return 0
}

// binDecode decodes a value of type t from bytes starting at *pos.
func (e *Engine) binDecode(bytes []*Term, pos *int, t types.Type, big bool) Value {
	switch u := t.Underlying().(type) {
	case *types.Basic:
		if u.Info()&types.IsBoolean != 0 {
			b := bytes[*pos]
			*pos++
			return Not(Eq(b, BVC(8, 0)))
		}
		w, _, _ := intWidth(u)
		n := w / 8
		var x *Term
		for k := 0; k < n; k++ {
			var b *Term
			if big {
				b = bytes[*pos+k]
			} else {
				b = bytes[*pos+n-1-k]
			}
			if x == nil {
				x = b
			} else {
				x = Concat(x, b)
			}
		}
		*pos += n
		return x
	case *types.Array:
		if isByteType(u.Elem()) {
			a := ZeroArr
			for k := int64(0); k < u.Len(); k++ {
				a = Store(a, I64C(k), bytes[*pos])
				*pos++
			}
			return &Bytes{A: a, N: I64C(u.Len())}
		}
		el := make([]Value, u.Len())
		for k := range el {
			el[k] = e.binDecode(bytes, pos, u.Elem(), big)
		}
		return &Array{E: el}
	case *types.Struct:
		f := make([]Value, u.NumFields())
		for k := range f {
			f[k] = e.binDecode(bytes, pos, u.Field(k).Type(), big)
		}
		return &Struct{F: f}
	}
	e.unsupported("binary: decode of %v", t)
	return nil
}

func registerBinaryNatives(e *Engine) {
	e.natives["encoding/binary.Write"] = func(e *Engine, g *G, cs *callSite, a []Value) (Value, bool) {
		w := a[0].(*Iface)
		big := e.binOrderBig(a[1])
		data := a[2].(*Iface)
		if data.T == nil {
			e.unsupported("binary.Write of nil")
		}
		bs := e.binEncode(nil, data.V, data.T, big)
		arr := ZeroArr
		for k, b := range bs {
			arr = Store(arr, I64C(int64(k)), b)
		}
		n := I64C(int64(len(bs)))
		o := e.newObject(nil, &Bytes{A: arr, N: n}, "binary.Write")
		buf := &Slice{P: &Pointer{O: o}, Off: I64C(0), Len: n, Cap: n}
		m := e.prog.LookupMethod(w.T, nil, "Write")
		if m == nil {
			e.unsupported("binary.Write: writer %v has no Write", w.T)
		}
		res := e.callSync(g, m, []Value{w.V, buf}).(Tuple)
		e.StubsUsed["encoding/binary.Write modelled per type (fixed-size big/little-endian layout)"]++
		return res[1], true
	}
	e.natives["encoding/binary.Read"] = func(e *Engine, g *G, cs *callSite, a []Value) (Value, bool) {
		r := a[0].(*Iface)
		big := e.binOrderBig(a[1])
		data := a[2].(*Iface)
		pt, ok := data.T.Underlying().(*types.Pointer)
		if !ok {
			e.unsupported("binary.Read into non-pointer %v", data.T)
		}
		size := e.binSize(pt.Elem())
		n := I64C(int64(size))
		o := e.newObject(nil, &Bytes{A: ZeroArr, N: n}, "binary.Read")
		buf := &Slice{P: &Pointer{O: o}, Off: I64C(0), Len: n, Cap: n}
		rf := e.prog.ImportedPackage("io").Func("ReadFull")
		res := e.callSync(g, rf, []Value{r, buf}).(Tuple)
		errv := res[1].(*Iface)
		e.StubsUsed["encoding/binary.Read modelled per type (fixed-size big/little-endian layout)"]++
		if errv.T != nil {
			return errv, true
		}
		arr := o.V.(*Bytes).A
		bs := make([]*Term, size)
		for k := range bs {
			bs[k] = Select(arr, I64C(int64(k)))
		}
		pos := 0
		v := e.binDecode(bs, &pos, pt.Elem(), big)
		e.store(data.V.(*Pointer), v)
		return NilIface, true
	}
	e.natives["encoding/binary.Size"] = func(e *Engine, g *G, cs *callSite, a []Value) (Value, bool) {
		data := a[0].(*Iface)
		return I64C(int64(e.binSize(data.T))), true
	}
}
