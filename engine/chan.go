package main

// Channels, select and goroutine hand-off under cooperative, run-to-block
// scheduling. A goroutine runs until it blocks; the lowest-numbered goroutine
// that can proceed runs next. A select with several ready cases forks one
// path per ready case.

import (
	"go/types"

	"golang.org/x/tools/go/ssa"
)

// Ghost workers. A goroutine that is started with `go x.Run(...)` but not run
// (nospawn: its later effect is what the harness's next symbolic event stands
// for) still has to honour the shutdown contract every worker of this
// repository follows: Close() does close(x.closeC); <-x.doneC. The ghost closes
// x.doneC as soon as x.closeC is closed, so the real teardown code runs
// unmodified (double Close still panics). Nested workers reachable through
// pointer fields (Peer -> Conn) get ghosts too.
type ghost struct {
	closeC, doneC *ChanObj
}

func (e *Engine) makeGhost(recv Value, t types.Type, depth int) {
	p, ok := recv.(*Pointer)
	if !ok || p.IsNil() || depth > 2 {
		return
	}
	pt, ok := t.Underlying().(*types.Pointer)
	if !ok {
		return
	}
	st, ok := pt.Elem().Underlying().(*types.Struct)
	if !ok {
		return
	}
	sv, ok := e.load(p).(*Struct)
	if !ok {
		return
	}
	var cc, dc *ChanObj
	for k := 0; k < st.NumFields(); k++ {
		f := st.Field(k)
		switch f.Name() {
		case "closeC", "stopC":
			if c, ok := sv.F[k].(*ChanObj); ok && c != nil && cc == nil {
				cc = c
			}
		case "doneC":
			if c, ok := sv.F[k].(*ChanObj); ok && c != nil {
				dc = c
			}
		}
		if _, isPtr := f.Type().Underlying().(*types.Pointer); isPtr {
			e.makeGhost(sv.F[k], f.Type(), depth+1)
		}
	}
	if cc != nil && dc != nil {
		for _, g := range e.ghosts {
			if g.doneC == dc {
				return
			}
		}
		e.ghosts = append(e.ghosts, &ghost{cc, dc})
		e.StubsUsed["ghost worker: an unspawned goroutine closes doneC once its closeC is closed"]++
	}
}

// runGhosts lets ghost workers react to closed close-channels.
func (e *Engine) runGhosts() {
	for _, g := range e.ghosts {
		if g.closeC.Closed && !g.doneC.Closed {
			g.doneC.Closed = true
		}
	}
}

func (e *Engine) chanClose(c *ChanObj) {
	if c == nil {
		e.goPanic("close of nil channel")
	}
	if c.Closed {
		e.goPanic("close of closed channel")
	}
	c.Closed = true
	e.runGhosts()
}

// canRecv reports whether a receive on c can complete now.
func (e *Engine) canRecv(c *ChanObj) bool {
	if c == nil || c.never {
		return false
	}
	if len(c.Buf) > 0 || c.Closed {
		return true
	}
	return e.blockedSender(c) != nil
}

func (e *Engine) canSend(c *ChanObj) bool {
	if c == nil || c.never {
		return false
	}
	if c.Closed {
		return true // will panic
	}
	if len(c.Buf) < c.Cap {
		return true
	}
	return e.blockedReceiver(c) != nil
}

// blockedSender finds a goroutine blocked in a send (or select send case) on c.
func (e *Engine) blockedSender(c *ChanObj) *G {
	for _, g := range e.gs {
		if g == e.cur || g.done || g.blocked == nil {
			continue
		}
		switch g.blocked.kind {
		case "send":
			if g.blocked.ch == c {
				return g
			}
		case "select":
			for _, st := range g.blocked.states {
				if st.isSend && st.ch == c {
					return g
				}
			}
		}
	}
	return nil
}

func (e *Engine) blockedReceiver(c *ChanObj) *G {
	for _, g := range e.gs {
		if g == e.cur || g.done || g.blocked == nil {
			continue
		}
		switch g.blocked.kind {
		case "recv":
			if g.blocked.ch == c {
				return g
			}
		case "select":
			for _, st := range g.blocked.states {
				if !st.isSend && st.ch == c {
					return g
				}
			}
		}
	}
	return nil
}

// doRecv performs a receive that is known to be able to complete.
func (e *Engine) doRecv(c *ChanObj) (Value, bool) {
	if len(c.Buf) > 0 {
		v := c.Buf[0]
		c.Buf = c.Buf[1:]
		// a blocked sender can now move its value into the buffer
		if sg := e.blockedSender(c); sg != nil {
			v2 := e.completeSender(sg, c)
			c.Buf = append(c.Buf, v2)
		}
		return v, true
	}
	if sg := e.blockedSender(c); sg != nil {
		return e.completeSender(sg, c), true
	}
	if c.Closed {
		return zero(c.T.Underlying().(*types.Chan).Elem()), false
	}
	panic("doRecv on non-ready channel")
}

// completeSender finishes the pending send of goroutine sg on channel c and returns the value.
func (e *Engine) completeSender(sg *G, c *ChanObj) Value {
	p := sg.blocked
	f := e.top(sg)
	switch p.kind {
	case "send":
		sg.blocked = nil
		f.pc++
		return p.val
	case "select":
		for i, st := range p.states {
			if st.isSend && st.ch == c {
				sel := p.instr.(*ssa.Select)
				f.regs[sel] = e.selectResult(sel, i, nil, false)
				f.pc++
				sg.blocked = nil
				return st.val
			}
		}
	}
	panic("completeSender: no matching send")
}

// completeReceiver hands value v to the goroutine rg blocked receiving on c.
func (e *Engine) completeReceiver(rg *G, c *ChanObj, v Value) {
	p := rg.blocked
	f := e.top(rg)
	switch p.kind {
	case "recv":
		un := p.instr.(*ssa.UnOp)
		if un.CommaOk {
			f.regs[un] = Tuple{v, TTrue}
		} else {
			f.regs[un] = v
		}
		f.pc++
		rg.blocked = nil
		return
	case "select":
		for i, st := range p.states {
			if !st.isSend && st.ch == c {
				sel := p.instr.(*ssa.Select)
				f.regs[sel] = e.selectResult(sel, i, v, true)
				f.pc++
				rg.blocked = nil
				return
			}
		}
	}
	panic("completeReceiver: no matching receive")
}

func (e *Engine) doSend(c *ChanObj, v Value) {
	if c.Closed {
		e.goPanic("send on closed channel")
	}
	if rg := e.blockedReceiver(c); rg != nil && len(c.Buf) == 0 {
		e.completeReceiver(rg, c, v)
		return
	}
	if len(c.Buf) < c.Cap {
		c.Buf = append(c.Buf, v)
		return
	}
	panic("doSend on non-ready channel")
}

func (e *Engine) execRecv(g *G, f *Frame, in *ssa.UnOp) {
	c := e.get(f, in.X).(*ChanObj)
	if e.canRecv(c) {
		v, ok := e.doRecv(c)
		if in.CommaOk {
			f.regs[in] = Tuple{v, BoolC(ok)}
		} else {
			f.regs[in] = v
		}
		f.pc++
		return
	}
	g.blocked = &pendingOp{kind: "recv", ch: c, instr: in}
	g.blocked.ready = func() bool {
		// re-try when the channel became ready (buffer filled or closed)
		return c != nil && !c.never && (len(c.Buf) > 0 || c.Closed)
	}
}

func (e *Engine) execSend(g *G, f *Frame, in *ssa.Send) {
	c := e.get(f, in.Chan).(*ChanObj)
	v := e.get(f, in.X)
	if e.canSend(c) {
		e.doSend(c, v)
		f.pc++
		return
	}
	g.blocked = &pendingOp{kind: "send", ch: c, val: v, instr: in}
	g.blocked.ready = func() bool {
		return c != nil && !c.never && (c.Closed || len(c.Buf) < c.Cap)
	}
}

// selectResult builds the result tuple of a Select instruction.
func (e *Engine) selectResult(sel *ssa.Select, index int, recv Value, recvOk bool) Value {
	tt := sel.Type().(*types.Tuple)
	res := make(Tuple, tt.Len())
	res[0] = I64C(int64(index))
	res[1] = BoolC(recvOk)
	// one slot per receive case, in order
	slot := 2
	for i, st := range sel.States {
		if st.Dir != types.RecvOnly {
			continue
		}
		if slot < len(res) {
			if i == index && recv != nil {
				res[slot] = recv
			} else {
				res[slot] = zero(tt.At(slot).Type())
			}
		}
		slot++
	}
	return res
}

func (e *Engine) execSelect(g *G, f *Frame, in *ssa.Select) {
	states := make([]*selState, len(in.States))
	var ready []int
	for i, st := range in.States {
		c, _ := e.get(f, st.Chan).(*ChanObj)
		ss := &selState{ch: c, isSend: st.Dir == types.SendOnly}
		if ss.isSend {
			ss.val = e.get(f, st.Send)
		}
		states[i] = ss
		if c == nil {
			continue
		}
		if ss.isSend {
			if e.canSend(c) {
				ready = append(ready, i)
			}
		} else if e.canRecv(c) {
			ready = append(ready, i)
		}
	}
	if len(ready) > 0 {
		k := ready[e.choose(len(ready))]
		ss := states[k]
		if ss.isSend {
			e.doSend(ss.ch, ss.val)
			f.regs[in] = e.selectResult(in, k, nil, false)
		} else {
			v, ok := e.doRecv(ss.ch)
			f.regs[in] = e.selectResult(in, k, v, ok)
		}
		f.pc++
		return
	}
	if !in.Blocking {
		f.regs[in] = e.selectResult(in, -1, nil, false)
		f.pc++
		return
	}
	g.blocked = &pendingOp{kind: "select", instr: in, states: states}
	g.blocked.ready = func() bool {
		for _, ss := range states {
			if ss.ch == nil || ss.ch.never {
				continue
			}
			if ss.isSend {
				if ss.ch.Closed || len(ss.ch.Buf) < ss.ch.Cap {
					return true
				}
			} else if len(ss.ch.Buf) > 0 || ss.ch.Closed {
				return true
			}
		}
		return false
	}
}
