package main

// Engine built-ins: the harness API (vrt.*) and the named environment stubs.
// Every stub that is actually used by a run is listed in that run's result.

import (
	"fmt"
	"go/types"
	"strings"

	"golang.org/x/tools/go/ssa"
)

const vrtPkg = "github.com/cenkalti/rain/v2/internal/zzvrt"

func strArg(e *Engine, v Value) string {
	s, ok := v.(*String)
	if !ok || !s.Conc {
		e.unsupported("vrt name/label argument must be a constant string")
	}
	return s.S
}

func sanitizeName(name string) string {
	var sb strings.Builder
	for _, c := range name {
		if c >= 'a' && c <= 'z' || c >= 'A' && c <= 'Z' || c >= '0' && c <= '9' || c == '_' {
			sb.WriteRune(c)
		} else {
			sb.WriteByte('_')
		}
	}
	return sb.String()
}

func (e *Engine) fresh(name string, w int) *Term {
	key := fmt.Sprintf("%s__%d", sanitizeName(name), e.nondetSeq)
	e.nondetSeq++
	var t *Term
	if w == 0 {
		t = Var(key, BoolSort)
	} else {
		t = Var(key, BV(w))
	}
	e.nondets = append(e.nondets, t)
	return t
}

// freshInternal makes a symbol that is not part of the harness's nondet sequence
// (environment stubs: clock, hash outputs, random numbers).
func (e *Engine) freshInternal(name string, s Sort) *Term {
	key := fmt.Sprintf("env_%s__%d", sanitizeName(name), e.envSeq)
	e.envSeq++
	return Var(key, s)
}

func (e *Engine) freshBytes(name string, n *Term) *Slice {
	key := fmt.Sprintf("%s__%d", sanitizeName(name), e.nondetSeq)
	e.nondetSeq++
	arr := Var(key, ArrSort)
	e.nondetArr = append(e.nondetArr, &nondetBytes{Name: key, Arr: arr, Len: n})
	o := e.newObject(nil, &Bytes{A: arr, N: n}, "nondet:"+key)
	return &Slice{P: &Pointer{O: o}, Off: I64C(0), Len: n, Cap: n}
}

func registerNatives(e *Engine) {
	n := e.natives
	v := func(name string, f nativeFn) { n[vrtPkg+"."+name] = f }
	v("Symbolic", func(e *Engine, g *G, cs *callSite, a []Value) (Value, bool) { return TTrue, true })
	v("Bool", func(e *Engine, g *G, cs *callSite, a []Value) (Value, bool) { return e.fresh(strArg(e, a[0]), 0), true })
	v("U8", func(e *Engine, g *G, cs *callSite, a []Value) (Value, bool) { return e.fresh(strArg(e, a[0]), 8), true })
	v("U16", func(e *Engine, g *G, cs *callSite, a []Value) (Value, bool) { return e.fresh(strArg(e, a[0]), 16), true })
	v("U32", func(e *Engine, g *G, cs *callSite, a []Value) (Value, bool) { return e.fresh(strArg(e, a[0]), 32), true })
	v("I32", func(e *Engine, g *G, cs *callSite, a []Value) (Value, bool) { return e.fresh(strArg(e, a[0]), 32), true })
	v("U64", func(e *Engine, g *G, cs *callSite, a []Value) (Value, bool) { return e.fresh(strArg(e, a[0]), 64), true })
	v("I64", func(e *Engine, g *G, cs *callSite, a []Value) (Value, bool) { return e.fresh(strArg(e, a[0]), 64), true })
	v("Int", func(e *Engine, g *G, cs *callSite, a []Value) (Value, bool) { return e.fresh(strArg(e, a[0]), 64), true })
	v("Choice", func(e *Engine, g *G, cs *callSite, a []Value) (Value, bool) {
		t := e.fresh(strArg(e, a[0]), 64)
		nn := a[1].(*Term)
		e.assume(And(BVCmp("bvsle", I64C(0), t), BVCmp("bvslt", t, nn)))
		k := e.concretize(t, 4096, "vrt.Choice")
		return I64C(int64(k)), true
	})
	v("Bytes", func(e *Engine, g *G, cs *callSite, a []Value) (Value, bool) {
		nn := a[1].(*Term)
		if !e.branch(BVCmp("bvsle", I64C(0), nn)) {
			e.goPanic("runtime error: makeslice: len out of range")
		}
		return e.freshBytes(strArg(e, a[0]), nn), true
	})
	v("String", func(e *Engine, g *G, cs *callSite, a []Value) (Value, bool) {
		nn := a[1].(*Term)
		s := e.freshBytes(strArg(e, a[0]), nn)
		arr, off := e.sliceBytes(s)
		return &String{A: arr, Off: off, Len: nn}, true
	})
	v("Assume", func(e *Engine, g *G, cs *callSite, a []Value) (Value, bool) { e.assume(a[0].(*Term)); return nil, true })
	v("Assert", func(e *Engine, g *G, cs *callSite, a []Value) (Value, bool) {
		label := strArg(e, a[1])
		e.prove(a[0].(*Term), label, "assert", label)
		return nil, true
	})
	v("Cover", func(e *Engine, g *G, cs *callSite, a []Value) (Value, bool) {
		label := strArg(e, a[1])
		c := a[0].(*Term)
		if c.IsTrue() {
			e.covers[label] = true
		}
		e.cover(c, label)
		return nil, true
	})
	v("Observe", func(e *Engine, g *G, cs *callSite, a []Value) (Value, bool) {
		e.observes = append(e.observes, strArg(e, a[0])+"="+describe(a[1]))
		return nil, true
	})
	v("Note", func(e *Engine, g *G, cs *callSite, a []Value) (Value, bool) {
		e.ghostLog = append(e.ghostLog, strArg(e, a[0]))
		return nil, true
	})
	// Yield: the calling goroutine waits until no other goroutine can run
	v("Yield", func(e *Engine, g *G, cs *callSite, a []Value) (Value, bool) {
		if g.yielded {
			g.yielded = false
			return nil, true
		}
		if !e.othersRunnable(g) {
			return nil, true
		}
		g.yielded = true
		cs.frame.pc--
		g.blocked = &pendingOp{kind: "yield", ready: func() bool { return !e.othersRunnable(g) }}
		return nil, true
	})
	v("MaxMake", func(e *Engine, g *G, cs *callSite, a []Value) (Value, bool) { return e.maxMake, true })
	v("Spawned", func(e *Engine, g *G, cs *callSite, a []Value) (Value, bool) {
		sub := strArg(e, a[0])
		c := 0
		for _, s := range e.spawned {
			if strings.Contains(s, sub) {
				c++
			}
		}
		return I64C(int64(c)), true
	})

	// ---- sync ----
	nop := func(e *Engine, g *G, cs *callSite, a []Value) (Value, bool) { return nil, true }
	for _, name := range []string{
		"(*sync.Mutex).Lock", "(*sync.Mutex).Unlock", "(*sync.RWMutex).Lock", "(*sync.RWMutex).Unlock",
		"(*sync.RWMutex).RLock", "(*sync.RWMutex).RUnlock", "(*sync.Pool).Put",
		"runtime.KeepAlive", "runtime.SetFinalizer", "runtime.GC", "runtime.Gosched",
		"internal/race.Acquire", "internal/race.Release", "internal/race.ReleaseMerge", "internal/race.Disable", "internal/race.Enable",
		"internal/race.Read", "internal/race.Write", "internal/race.ReadRange", "internal/race.WriteRange",
		"(*strings.Builder).copyCheck", "(*sync.noCopy).Lock",
		"time.Sleep",
	} {
		n[name] = nop
	}
	n["(*sync.Mutex).TryLock"] = func(e *Engine, g *G, cs *callSite, a []Value) (Value, bool) { return TTrue, true }
	n["(*sync.Pool).Get"] = func(e *Engine, g *G, cs *callSite, a []Value) (Value, bool) {
		p := a[0].(*Pointer)
		st := e.load(p).(*Struct)
		// field "New" is the last field of sync.Pool
		pt := p.O.T
		_ = pt
		var newFn Value
		for _, fv := range st.F {
			switch x := fv.(type) {
			case *Closure:
				if x != nil {
					newFn = x
				}
			case *ssa.Function:
				if x != nil {
					newFn = x
				}
			}
		}
		if newFn == nil {
			return NilIface, true
		}
		return e.callSync(g, newFn, nil), true
	}
	n["(*sync.WaitGroup).Add"] = func(e *Engine, g *G, cs *callSite, a []Value) (Value, bool) {
		p := a[0].(*Pointer)
		e.wgAdd(p, a[1].(*Term).SVal())
		return nil, true
	}
	n["(*sync.WaitGroup).Done"] = func(e *Engine, g *G, cs *callSite, a []Value) (Value, bool) {
		e.wgAdd(a[0].(*Pointer), -1)
		return nil, true
	}
	n["(*sync.WaitGroup).Wait"] = func(e *Engine, g *G, cs *callSite, a []Value) (Value, bool) {
		p := a[0].(*Pointer)
		key := ptrKey(p)
		if e.wg[key] > 0 {
			// block: re-executes the call when the counter reaches zero
			cs.frame.pc--
			g.blocked = &pendingOp{kind: "wait", ready: func() bool { return e.wg[key] <= 0 }}
		}
		return nil, true
	}

	// ---- sync/atomic intrinsics ----
	for _, w := range []string{"Int32", "Int64", "Uint32", "Uint64", "Uintptr", "Pointer"} {
		w := w
		n["sync/atomic.Load"+w] = func(e *Engine, g *G, cs *callSite, a []Value) (Value, bool) { return e.load(a[0].(*Pointer)), true }
		n["sync/atomic.Store"+w] = func(e *Engine, g *G, cs *callSite, a []Value) (Value, bool) {
			e.store(a[0].(*Pointer), a[1])
			return nil, true
		}
		n["sync/atomic.Swap"+w] = func(e *Engine, g *G, cs *callSite, a []Value) (Value, bool) {
			old := e.load(a[0].(*Pointer))
			e.store(a[0].(*Pointer), a[1])
			return old, true
		}
		n["sync/atomic.CompareAndSwap"+w] = func(e *Engine, g *G, cs *callSite, a []Value) (Value, bool) {
			p := a[0].(*Pointer)
			cur := e.load(p)
			if e.branch(e.equal(cur, a[1])) {
				e.store(p, a[2])
				return TTrue, true
			}
			return TFalse, true
		}
		if w != "Pointer" {
			n["sync/atomic.Add"+w] = func(e *Engine, g *G, cs *callSite, a []Value) (Value, bool) {
				p := a[0].(*Pointer)
				nv := BVBin("bvadd", e.load(p).(*Term), a[1].(*Term))
				e.store(p, nv)
				return nv, true
			}
			n["sync/atomic.And"+w] = func(e *Engine, g *G, cs *callSite, a []Value) (Value, bool) {
				p := a[0].(*Pointer)
				old := e.load(p).(*Term)
				e.store(p, BVBin("bvand", old, a[1].(*Term)))
				return old, true
			}
			n["sync/atomic.Or"+w] = func(e *Engine, g *G, cs *callSite, a []Value) (Value, bool) {
				p := a[0].(*Pointer)
				old := e.load(p).(*Term)
				e.store(p, BVBin("bvor", old, a[1].(*Term)))
				return old, true
			}
		}
	}

	// atomic.Value is implemented with unsafe casts of the interface words
	n["(*sync/atomic.Value).Load"] = func(e *Engine, g *G, cs *callSite, a []Value) (Value, bool) {
		return e.load(a[0].(*Pointer)).(*Struct).F[0], true
	}
	n["(*sync/atomic.Value).Store"] = func(e *Engine, g *G, cs *callSite, a []Value) (Value, bool) {
		p := a[0].(*Pointer)
		if a[1].(*Iface).T == nil {
			e.goPanic("sync/atomic: store of nil value into Value")
		}
		e.store(&Pointer{O: p.O, Path: extendPath(p.Path, 0)}, a[1])
		return nil, true
	}
	n["(*sync/atomic.Value).Swap"] = func(e *Engine, g *G, cs *callSite, a []Value) (Value, bool) {
		p := a[0].(*Pointer)
		old := e.load(p).(*Struct).F[0]
		e.store(&Pointer{O: p.O, Path: extendPath(p.Path, 0)}, a[1])
		return old, true
	}
	n["(*sync/atomic.Value).CompareAndSwap"] = func(e *Engine, g *G, cs *callSite, a []Value) (Value, bool) {
		p := a[0].(*Pointer)
		old := e.load(p).(*Struct).F[0]
		if e.branch(e.equal(old, a[1])) {
			e.store(&Pointer{O: p.O, Path: extendPath(p.Path, 0)}, a[2])
			return TTrue, true
		}
		return TFalse, true
	}

	// ---- errors / fmt / log ----
	n["fmt.Errorf"] = func(e *Engine, g *G, cs *callSite, a []Value) (Value, bool) {
		return e.newError("fmt.Errorf: " + fmtString(a[0])), true
	}
	n["fmt.Sprintf"] = func(e *Engine, g *G, cs *callSite, a []Value) (Value, bool) {
		return ConcStr("<sprintf:" + fmtString(a[0]) + ">"), true
	}
	n["fmt.Sprint"] = func(e *Engine, g *G, cs *callSite, a []Value) (Value, bool) { return ConcStr("<sprint>"), true }
	n["fmt.Sprintln"] = func(e *Engine, g *G, cs *callSite, a []Value) (Value, bool) { return ConcStr("<sprintln>"), true }
	for _, name := range []string{"fmt.Println", "fmt.Printf", "fmt.Print", "fmt.Fprintf", "fmt.Fprintln", "fmt.Fprint"} {
		n[name] = func(e *Engine, g *G, cs *callSite, a []Value) (Value, bool) {
			return Tuple{I64C(0), NilIface}, true
		}
	}
	n["errors.Is"] = func(e *Engine, g *G, cs *callSite, a []Value) (Value, bool) {
		return e.errorsIs(g, a[0].(*Iface), a[1].(*Iface), 0), true
	}

	// ---- hashing ----
	n["crypto/sha1.New"] = func(e *Engine, g *G, cs *callSite, a []Value) (Value, bool) { return e.newSha1(), true }
	n["crypto/sha1.Sum"] = func(e *Engine, g *G, cs *callSite, a []Value) (Value, bool) {
		s := a[0].(*Slice)
		arr, off := e.sliceBytes(s)
		out := e.sha1Of([]hashChunk{{arr, off, s.Len}})
		return &Bytes{A: out, N: I64C(20)}, true
	}

	// ---- time ----
	n["time.Now"] = func(e *Engine, g *G, cs *callSite, a []Value) (Value, bool) {
		t := e.freshInternal("now", BV(64))
		if e.timeNow != nil {
			e.assume(BVCmp("bvsle", e.timeNow, t))
		} else {
			// the wall clock is never the zero Time (year 1)
			e.assume(BVCmp("bvslt", I64C(0), t))
		}
		e.assume(BVCmp("bvslt", t, I64C(1<<60)))
		e.timeNow = t
		// time.Time{wall, ext, loc}
		return &Struct{F: []Value{BVC(64, 0), t, NilPtr}}, true
	}
	// used by package time's own initialisation (start of the monotonic clock)
	n["time.runtimeNano"] = func(e *Engine, g *G, cs *callSite, a []Value) (Value, bool) { return I64C(1), true }
	n["time.Since"] = func(e *Engine, g *G, cs *callSite, a []Value) (Value, bool) {
		d := e.freshInternal("since", BV(64))
		e.assume(BVCmp("bvsle", I64C(0), d))
		e.assume(BVCmp("bvslt", d, I64C(1<<60)))
		return d, true
	}
	n["time.Until"] = n["time.Since"]

	// timers and tickers: model channels that never fire unless the harness
	// registered a model timer (vrt.TimerChan); Stop/Reset are recorded no-ops
	n["time.NewTicker"] = func(e *Engine, g *G, cs *callSite, a []Value) (Value, bool) {
		return e.newTimeObj("Ticker", a[0]), true
	}
	n["time.NewTimer"] = func(e *Engine, g *G, cs *callSite, a []Value) (Value, bool) {
		return e.newTimeObj("Timer", a[0]), true
	}
	n["time.AfterFunc"] = func(e *Engine, g *G, cs *callSite, a []Value) (Value, bool) {
		return e.newTimeObj("Timer", a[0]), true
	}
	n["time.After"] = func(e *Engine, g *G, cs *callSite, a []Value) (Value, bool) {
		p := e.newTimeObj("Timer", a[0]).(*Pointer)
		return e.load(p).(*Struct).F[0], true
	}
	n["time.Tick"] = n["time.After"]
	n["(*time.Timer).Stop"] = func(e *Engine, g *G, cs *callSite, a []Value) (Value, bool) { return TTrue, true }
	n["(*time.Timer).Reset"] = func(e *Engine, g *G, cs *callSite, a []Value) (Value, bool) {
		e.timerResets = append(e.timerResets, a[1].(*Term))
		return TTrue, true
	}
	n["(*time.Ticker).Stop"] = nop
	n["(*time.Ticker).Reset"] = nop
	v("TimerChan", func(e *Engine, g *G, cs *callSite, a []Value) (Value, bool) {
		// the channel handed out by the k-th timer/ticker created so far (nil if none)
		k := int(a[0].(*Term).SVal())
		if k < 0 || k >= len(e.timerChans) {
			return (*ChanObj)(nil), true
		}
		e.timerChans[k].never = false
		return e.timerChans[k], true
	})
	v("TimerResets", func(e *Engine, g *G, cs *callSite, a []Value) (Value, bool) {
		return I64C(int64(len(e.timerResets))), true
	})
	v("TimerReset", func(e *Engine, g *G, cs *callSite, a []Value) (Value, bool) {
		k := int(a[0].(*Term).SVal())
		if k < 0 || k >= len(e.timerResets) {
			return I64C(-1), true
		}
		return e.timerResets[k], true
	})

	// go-metrics: meters register themselves with a global ticking arbiter;
	// replaced by the library's own no-op meter
	n["github.com/rcrowley/go-metrics.NewMeter"] = func(e *Engine, g *G, cs *callSite, a []Value) (Value, bool) {
		pkg := e.prog.ImportedPackage("github.com/rcrowley/go-metrics")
		t := pkg.Type("NilMeter").Type()
		return &Iface{T: t, V: zero(t)}, true
	}
	n["crypto/rand.Read"] = func(e *Engine, g *G, cs *callSite, a []Value) (Value, bool) {
		s := a[0].(*Slice)
		if s.P != nil {
			arr, off := e.sliceBytes(s)
			rnd := e.freshInternal("cryptorand", ArrSort)
			e.setSliceBytes(s, ArrCopy(arr, rnd, off, I64C(0), s.Len))
		}
		return Tuple{s.Len, NilIface}, true
	}

	// net.IP.String goes through net/netip and the `unique` package (runtime
	// weak pointers). The repository uses the result only as a map key and in
	// log lines, so it is replaced by an injective encoding of the address
	// bytes ("ip4:" + 4 raw bytes, v4-mapped addresses included; "ip6:" + 16).
	n["(net.IP).String"] = func(e *Engine, g *G, cs *callSite, a []Value) (Value, bool) {
		s := a[0].(*Slice)
		e.StubsUsed["net.IP.String: injective raw-byte encoding instead of dotted text"]++
		if s.P == nil {
			return ConcStr("<nil>"), true
		}
		n := e.concretize(s.Len, 64, "net.IP length")
		arr, off := e.sliceBytes(s)
		at := func(k uint64) *Term { return Select(arr, BVBin("bvadd", off, BVC(64, k))) }
		mk := func(prefix string, from, cnt uint64) Value {
			r := ZeroArr
			for i := 0; i < len(prefix); i++ {
				r = Store(r, I64C(int64(i)), BVC(8, uint64(prefix[i])))
			}
			for k := uint64(0); k < cnt; k++ {
				r = Store(r, I64C(int64(len(prefix))+int64(k)), at(from+k))
			}
			return e.mkString(r, I64C(0), I64C(int64(len(prefix))+int64(cnt)))
		}
		switch n {
		case 0:
			return ConcStr("<nil>"), true
		case 4:
			return mk("ip4:", 0, 4), true
		case 16:
			mapped := TTrue
			for k := uint64(0); k < 10; k++ {
				mapped = And(mapped, Eq(at(k), BVC(8, 0)))
			}
			mapped = And(mapped, And(Eq(at(10), BVC(8, 0xff)), Eq(at(11), BVC(8, 0xff))))
			if e.branch(mapped) {
				return mk("ip4:", 12, 4), true
			}
			return mk("ip6:", 0, 16), true
		}
		return ConcStr("?ip"), true
	}
	n["(*net.TCPAddr).String"] = func(e *Engine, g *G, cs *callSite, a []Value) (Value, bool) {
		return ConcStr("<tcpaddr>"), true
	}
	n["(*net.UDPAddr).String"] = n["(*net.TCPAddr).String"]

	// BEP 40 peer priority is a CRC32-C of the two addresses (arch-specific
	// tables and function pointers); only its ordering role matters: arbitrary value
	n["github.com/cenkalti/rain/v2/internal/peerpriority.Calculate"] = func(e *Engine, g *G, cs *callSite, a []Value) (Value, bool) {
		return e.freshInternal("peerpriority", BV(32)), true
	}

	// ---- math/rand ----
	n["math/rand/v2.IntN"] = func(e *Engine, g *G, cs *callSite, a []Value) (Value, bool) {
		nn := a[0].(*Term)
		if !e.branch(BVCmp("bvslt", I64C(0), nn)) {
			e.goPanic("invalid argument to IntN")
		}
		r := e.freshInternal("rand", BV(64))
		e.assume(And(BVCmp("bvsle", I64C(0), r), BVCmp("bvslt", r, nn)))
		return r, true
	}
	n["math/rand.Intn"] = n["math/rand/v2.IntN"]
	n["math/rand/v2.Shuffle"] = func(e *Engine, g *G, cs *callSite, a []Value) (Value, bool) {
		// identity permutation (the order of a shuffled list is not relied upon by any claim)
		return nil, true
	}
	n["math/rand.Shuffle"] = n["math/rand/v2.Shuffle"]

	// ---- bytes / strings fast paths implemented in assembly ----
	n["internal/bytealg.Equal"] = func(e *Engine, g *G, cs *callSite, a []Value) (Value, bool) {
		return e.bytesEqual(a[0].(*Slice), a[1].(*Slice)), true
	}
	n["bytes.Equal"] = n["internal/bytealg.Equal"]
	n["internal/bytealg.IndexByteString"] = func(e *Engine, g *G, cs *callSite, a []Value) (Value, bool) {
		s := a[0].(*String)
		return e.indexByte(func(i *Term) *Term { return s.byteAt(i) }, s.LenTerm(), a[1].(*Term)), true
	}
	n["internal/bytealg.IndexByte"] = func(e *Engine, g *G, cs *callSite, a []Value) (Value, bool) {
		s := a[0].(*Slice)
		arr, off := e.sliceBytes(s)
		return e.indexByte(func(i *Term) *Term { return Select(arr, BVBin("bvadd", off, i)) }, s.Len, a[1].(*Term)), true
	}
	n["internal/bytealg.CountString"] = func(e *Engine, g *G, cs *callSite, a []Value) (Value, bool) {
		s := a[0].(*String)
		nn := e.concretize(s.LenTerm(), 4096, "CountString length")
		c := I64C(0)
		for i := uint64(0); i < nn; i++ {
			c = BVBin("bvadd", c, Ite(Eq(s.byteAt(BVC(64, i)), a[1].(*Term)), I64C(1), I64C(0)))
		}
		return c, true
	}
	n["internal/bytealg.MakeNoZero"] = func(e *Engine, g *G, cs *callSite, a []Value) (Value, bool) {
		nn := a[0].(*Term)
		e.noteAlloc(nn)
		o := e.newObject(nil, &Bytes{A: ZeroArr, N: nn}, "MakeNoZero")
		return &Slice{P: &Pointer{O: o}, Off: I64C(0), Len: nn, Cap: nn}, true
	}
	n["internal/stringslite.Index"] = nil
	delete(n, "internal/stringslite.Index")
	n["unsafe.String"] = nil
	delete(n, "unsafe.String")
	n["internal/abi.NoEscape"] = func(e *Engine, g *G, cs *callSite, a []Value) (Value, bool) { return a[0], true }
	n["internal/abi.Escape"] = func(e *Engine, g *G, cs *callSite, a []Value) (Value, bool) { return a[0], true }
}

// newTimeObj builds a *time.Timer / *time.Ticker whose channel never fires.
func (e *Engine) newTimeObj(typ string, d Value) Value {
	pkg := e.prog.ImportedPackage("time")
	if pkg == nil {
		e.unsupported("package time not loaded")
	}
	t := pkg.Type(typ).Type()
	st := t.Underlying().(*types.Struct)
	s := zero(t).(*Struct)
	e.objSeq++
	var elem types.Type
	for k := 0; k < st.NumFields(); k++ {
		if st.Field(k).Name() == "C" {
			elem = st.Field(k).Type()
			ch := &ChanObj{id: e.objSeq, Cap: 1, T: elem, never: true}
			e.timerChans = append(e.timerChans, ch)
			nf := make([]Value, len(s.F))
			copy(nf, s.F)
			nf[k] = ch
			s = &Struct{F: nf}
		}
	}
	if dt, ok := d.(*Term); ok {
		e.timerResets = append(e.timerResets, dt)
	}
	e.StubsUsed["time."+typ+": model timer (fires only when the harness sends on vrt.TimerChan)"]++
	o := e.newObject(t, s, "time."+typ)
	return &Pointer{O: o}
}

func fmtString(v Value) string {
	if s, ok := v.(*String); ok && s.Conc {
		return s.S
	}
	return "?"
}

func ptrKey(p *Pointer) string {
	return fmt.Sprintf("%d%v", p.O.id, p.Path)
}

func (e *Engine) wgAdd(p *Pointer, d int64) {
	if e.wg == nil {
		e.wg = map[string]int64{}
	}
	e.wg[ptrKey(p)] += d
	if e.wg[ptrKey(p)] < 0 {
		e.goPanic("sync: negative WaitGroup counter")
	}
}

// newError returns a fresh non-nil error value (*errors.errorString).
func (e *Engine) newError(msg string) Value {
	if e.errorStringT == nil {
		pkg := e.prog.ImportedPackage("errors")
		if pkg == nil {
			e.unsupported("package errors not loaded")
		}
		e.errorStringT = pkg.Type("errorString").Type()
	}
	o := e.newObject(e.errorStringT, &Struct{F: []Value{ConcStr(msg)}}, "error")
	return &Iface{T: types.NewPointer(e.errorStringT), V: &Pointer{O: o}}
}

// methodOrNil looks an exported method up in T's method set (nil if absent).
func (e *Engine) methodOrNil(t types.Type, name string) *ssa.Function {
	sel := e.prog.MethodSets.MethodSet(t).Lookup(nil, name)
	if sel == nil {
		return nil
	}
	return e.prog.MethodValue(sel)
}

func (e *Engine) errorsIs(g *G, err, target *Iface, depth int) *Term {
	if depth > 8 {
		return TFalse
	}
	if err.T == nil || target.T == nil {
		return BoolC(err.T == nil && target.T == nil)
	}
	if types.Identical(err.T, target.T) && types.Comparable(err.T) {
		eq := e.equal(err.V, target.V)
		if eq.IsTrue() {
			return TTrue
		}
		if !eq.IsFalse() {
			if e.branch(eq) {
				return TTrue
			}
		}
	}
	if m := e.methodOrNil(err.T, "Is"); m != nil {
		r := e.callSync(g, m, []Value{err.V, target}).(*Term)
		if e.branch(r) {
			return TTrue
		}
	}
	if m := e.methodOrNil(err.T, "Unwrap"); m != nil {
		if m.Signature.Results().Len() == 1 && types.Identical(m.Signature.Results().At(0).Type(), types.Universe.Lookup("error").Type()) {
			inner := e.callSync(g, m, []Value{err.V}).(*Iface)
			return e.errorsIs(g, inner, target, depth+1)
		}
	}
	return TFalse
}

// bytesEqual compares two byte slices. Lengths must agree; the content
// comparison needs a concrete (after forking) length.
func (e *Engine) bytesEqual(a, b *Slice) *Term {
	leq := Eq(a.Len, b.Len)
	if leq.IsFalse() {
		return TFalse
	}
	if !e.branch(leq) {
		return TFalse
	}
	n := e.concretize(a.Len, 4096, "bytes.Equal length")
	aa, ao := e.sliceBytes(a)
	ba, bo := e.sliceBytes(b)
	r := TTrue
	for k := uint64(0); k < n; k++ {
		kk := BVC(64, k)
		r = And(r, Eq(Select(aa, BVBin("bvadd", ao, kk)), Select(ba, BVBin("bvadd", bo, kk))))
		if r.IsFalse() {
			break
		}
	}
	return r
}

func (e *Engine) indexByte(at func(*Term) *Term, n *Term, c *Term) *Term {
	nn := e.concretize(n, 4096, "IndexByte length")
	r := I64C(-1)
	for i := int64(nn) - 1; i >= 0; i-- {
		r = Ite(Eq(at(I64C(i)), c), I64C(i), r)
	}
	return r
}

// nativeByPattern handles families of functions by receiver/package.
func (e *Engine) nativeByPattern(fn *ssa.Function) nativeFn {
	name := fn.String()
	// logger calls: no output
	if strings.HasPrefix(name, "(*github.com/cenkalti/log.") || strings.HasPrefix(name, "(github.com/cenkalti/log.") {
		return func(e *Engine, g *G, cs *callSite, a []Value) (Value, bool) {
			rs := fn.Signature.Results()
			switch rs.Len() {
			case 0:
				return nil, true
			case 1:
				return e.stubResult(rs.At(0).Type()), true
			}
			return zero(rs), true
		}
	}
	// package unique: interning table kept by the engine (concrete values only)
	if strings.HasPrefix(name, "unique.Make[") {
		return func(e *Engine, g *G, cs *callSite, a []Value) (Value, bool) {
			key, ok := uniqueKey(a[0])
			if !ok {
				e.unsupported("unique.Make of a symbolic value")
			}
			key = fn.Signature.Params().At(0).Type().String() + ":" + key
			if e.uniqueTab == nil {
				e.uniqueTab = map[string]*Object{}
			}
			o := e.uniqueTab[key]
			if o == nil {
				saved := e.inInit
				e.inInit = false // interned values outlive a path; they are immutable
				o = e.newObject(fn.Signature.Params().At(0).Type(), a[0], "unique")
				e.inInit = saved
				e.uniqueTab[key] = o
			}
			return &Struct{F: []Value{&Pointer{O: o}}}, true
		}
	}
	if strings.HasPrefix(name, "(unique.Handle[") && strings.HasSuffix(name, ").Value") {
		return func(e *Engine, g *G, cs *callSite, a []Value) (Value, bool) {
			p := a[0].(*Struct).F[0].(*Pointer)
			return e.load(p), true
		}
	}
	if strings.HasPrefix(name, "(*github.com/rcrowley/go-metrics.") || strings.HasPrefix(name, "(github.com/rcrowley/go-metrics.") {
		return func(e *Engine, g *G, cs *callSite, a []Value) (Value, bool) {
			rs := fn.Signature.Results()
			switch rs.Len() {
			case 0:
				return nil, true
			case 1:
				return zero(rs.At(0).Type()), true
			}
			return zero(rs), true
		}
	}
	return nil
}

// stubResult: zero value, except that logger constructors return a usable logger.
func (e *Engine) stubResult(t types.Type) Value {
	return zero(t)
}

// ---- SHA-1 as an uninterpreted functional hash ----

type hashChunk struct {
	arr, off, n *Term
}

// sha1Of returns a 20-byte array term that is a function of the chunk list:
// the same sequence of (array, offset, length) terms yields the same output
// symbols; anything else yields fresh unconstrained symbols (collisions are
// allowed, which over-approximates an adversary).
func (e *Engine) sha1Of(chunks []hashChunk) *Term {
	var sb strings.Builder
	for _, c := range chunks {
		fmt.Fprintf(&sb, "%d/%d/%d;", c.arr.id, c.off.id, c.n.id)
	}
	key := sb.String()
	if t, ok := e.sha1Memo[key]; ok {
		return t
	}
	e.StubsUsed["crypto/sha1 as uninterpreted functional hash"]++
	t := e.freshInternal("sha1", ArrSort)
	e.sha1Memo[key] = t
	return t
}

// newSha1 returns a hash.Hash whose methods are engine natives.
func (e *Engine) newSha1() Value {
	if e.sha1T == nil {
		pkg := e.prog.ImportedPackage("crypto/sha1")
		if pkg == nil {
			e.unsupported("crypto/sha1 not loaded")
		}
		e.sha1T = pkg.Type("digest").Type()
	}
	o := e.newObject(e.sha1T, &sha1State{}, "sha1.digest")
	return &Iface{T: types.NewPointer(e.sha1T), V: &Pointer{O: o}}
}

type sha1State struct {
	chunks []hashChunk
}

func init() {
	sha1Natives = map[string]nativeFn{
		"(*crypto/sha1.digest).Write": func(e *Engine, g *G, cs *callSite, a []Value) (Value, bool) {
			p := a[0].(*Pointer)
			st, ok := p.O.V.(*sha1State)
			if !ok {
				e.unsupported("sha1 digest not created through sha1.New")
			}
			s := a[1].(*Slice)
			arr, off := e.sliceBytes(s)
			ns := &sha1State{chunks: append(append([]hashChunk(nil), st.chunks...), hashChunk{arr, off, s.Len})}
			p.O.V = ns
			return Tuple{s.Len, NilIface}, true
		},
		"(*crypto/sha1.digest).Sum": func(e *Engine, g *G, cs *callSite, a []Value) (Value, bool) {
			p := a[0].(*Pointer)
			st, ok := p.O.V.(*sha1State)
			if !ok {
				e.unsupported("sha1 digest not created through sha1.New")
			}
			out := e.sha1Of(st.chunks)
			in := a[1].(*Slice)
			// append 20 bytes to in
			o := e.newObject(nil, &Bytes{A: out, N: I64C(20)}, "sha1sum")
			sum := &Slice{P: &Pointer{O: o}, Off: I64C(0), Len: I64C(20), Cap: I64C(20)}
			if in.P == nil || (in.Len.IsConst() && in.Len.Val == 0) {
				return sum, true
			}
			return e.appendOp(in, sum, nil), true
		},
		"(*crypto/sha1.digest).Reset": func(e *Engine, g *G, cs *callSite, a []Value) (Value, bool) {
			a[0].(*Pointer).O.V = &sha1State{}
			return nil, true
		},
		"(*crypto/sha1.digest).Size":      func(e *Engine, g *G, cs *callSite, a []Value) (Value, bool) { return I64C(20), true },
		"(*crypto/sha1.digest).BlockSize": func(e *Engine, g *G, cs *callSite, a []Value) (Value, bool) { return I64C(64), true },
	}
}

var sha1Natives map[string]nativeFn

// uniqueKey renders a fully concrete value as a map key (for package unique).
func uniqueKey(v Value) (string, bool) {
	switch x := v.(type) {
	case *Term:
		if !x.IsConst() {
			return "", false
		}
		return fmt.Sprintf("%d/%d", x.S.W, x.Val), true
	case *String:
		if !x.Conc {
			return "", false
		}
		return fmt.Sprintf("%q", x.S), true
	case *Struct:
		out := "{"
		for _, f := range x.F {
			k, ok := uniqueKey(f)
			if !ok {
				return "", false
			}
			out += k + ","
		}
		return out + "}", true
	case *Pointer:
		if x.IsNil() {
			return "nil", true
		}
		return fmt.Sprintf("p%d%v", x.O.id, x.Path), x.Sym == nil
	}
	return "", false
}
