package main

// Exploration driver: depth-first search over decision sequences by
// re-execution. A path is identified by its list of decisions; to explore a
// sibling the harness is executed again from the start, replaying the common
// prefix without solver queries (terms are hash-consed, so the replay rebuilds
// exactly the same terms and the solver's assertion stack stays valid up to
// the common depth).

import (
	"fmt"
	"go/types"
	"os"
	"sort"
	"strings"
	"time"

	"golang.org/x/tools/go/ssa"
)

type Decision struct {
	C int    // chosen alternative
	V uint64 // value (for concretisation decisions)
	F bool   // a real fork (more than one alternative was feasible)
	Conc bool // a concretisation step
}

type pathEnd struct {
	kind string // ok, infeasible, unwind, deadlock, gopanic, error, budget, stop
	msg  string
}

type Violation struct {
	Label    string            `json:"label"`
	Kind     string            `json:"kind"` // assert, panic, deadlock, unwind
	Msg      string            `json:"msg"`
	Model    map[string]uint64 `json:"model"`
	Bytes    map[string]*BytesModel `json:"bytes,omitempty"`
	Order    []string          `json:"order"`
	Trace    []string          `json:"trace,omitempty"`
	Stack    []string          `json:"stack,omitempty"`
	PathID   int               `json:"path"`
}

type BytesModel struct {
	Default uint64         `json:"default"`
	Len  uint64            `json:"len"`
	Data map[string]uint64 `json:"data"`
}

type Sample struct {
	PathID  int               `json:"path"`
	End     string            `json:"end"`
	Model   map[string]uint64 `json:"model"`
	Bytes   map[string]*BytesModel `json:"bytes,omitempty"`
	Order   []string          `json:"order"`
	Observe []string          `json:"observe,omitempty"`
	Covers  []string          `json:"covers,omitempty"`
}

type Config struct {
	Unwind      int
	MaxPaths    int
	MaxSteps    int64 // per path
	MaxAlloc    int   // concretisation bound
	Timeout     time.Duration
	SolverMs    int
	Samples     int
	PanicOK     bool // uncaught panic is not a violation (harness decides with ExpectPanic)
	UnwindIsBug bool // hitting the unwinding bound is the violation (termination harnesses)
	NoSpawn     bool // `go f()` is logged, not run
	SchedBound  int  // number of scheduling points per path at which a goroutine other than the lowest-numbered runnable one may be chosen
	Verbose     bool
	MaxViolPerLabel int
	ReverseMaps bool
	NoIfConv    bool
	Shard, NShards, SplitK int
}

type Engine struct {
	prog   *ssa.Program
	cfg    Config
	solver *Solver

	// exploration
	prefix []Decision
	trace  []Decision
	work   [][]Decision
	pc     []*Term // path-condition conjunct per trace entry (nil = none)

	// per path
	gs        []*G
	cur       *G
	objSeq    int
	nondetSeq int
	nondets   []*Term
	nondetArr []*nondetBytes
	steps     int64
	schedUsed int
	observes  []string
	covers    map[string]bool
	ghostLog  []string
	maxMake   *Term // largest byte allocation on this path (BV64 term)
	spawned   []string
	timeNow   *Term
	envSeq    int
	wg        map[string]int64
	lastStack []string
	noSpawn   map[string]bool
	errorStringT types.Type
	sha1T     types.Type

	// globals / init
	globals   map[*ssa.Global]*Object
	initDone  map[*ssa.Package]bool
	initObjs  []*Object
	initMaps  []*MapObj
	inInit    bool
	initTarget *ssa.Function

	// tables
	replace  map[string]*ssa.Function
	natives  map[string]nativeFn
	sha1Memo map[string]*Term

	// results
	Paths        int
	PathEnds     map[string]int
	Violations   []*Violation
	violCount    map[string]int
	CoverHit     map[string]int
	Obligations  int
	Discharged   int
	Branches     int
	Samples      []*Sample
	FuncsRun     map[string]int
	StubsUsed    map[string]int
	Inconclusive []string
	start        time.Time
	pathID       int
	MaxDepth     int
	IfConverted  int
	known        map[int]bool
	forkStr      []byte
	forks        int
	timerChans   []*ChanObj
	timerResets  []*Term
	uniqueTab    map[string]*Object // package unique's interning table (engine lifetime)
	ghosts       []*ghost
}

type nondetBytes struct {
	Name string
	Arr  *Term
	Len  *Term
}

type nativeFn func(e *Engine, g *G, call *callSite, args []Value) (Value, bool)

func NewEngine(prog *ssa.Program, cfg Config, s *Solver) *Engine {
	e := &Engine{prog: prog, cfg: cfg, solver: s}
	e.globals = map[*ssa.Global]*Object{}
	e.initDone = map[*ssa.Package]bool{}
	e.replace = map[string]*ssa.Function{}
	e.PathEnds = map[string]int{}
	e.violCount = map[string]int{}
	e.CoverHit = map[string]int{}
	e.FuncsRun = map[string]int{}
	e.StubsUsed = map[string]int{}
	e.sha1Memo = map[string]*Term{}
	e.natives = map[string]nativeFn{}
	registerNatives(e)
	registerBinaryNatives(e)
	for k, v := range sha1Natives {
		e.natives[k] = v
	}
	return e
}

func (e *Engine) end(kind, msg string) {
	panic(pathEnd{kind, msg})
}

func (e *Engine) unsupported(format string, args ...interface{}) {
	msg := fmt.Sprintf(format, args...)
	if e.cur != nil && len(e.cur.frames) > 0 {
		f := e.cur.frames[len(e.cur.frames)-1]
		msg += " at " + e.where(f)
		for i := len(e.cur.frames) - 2; i >= 0 && i >= len(e.cur.frames)-6; i-- {
			msg += " < " + e.cur.frames[i].fn.Name()
		}
	}
	panic(pathEnd{"error", msg})
}

func (e *Engine) where(f *Frame) string {
	if f == nil || f.fn == nil {
		return "?"
	}
	pos := ""
	if f.block != nil && f.pc < len(f.block.Instrs) {
		p := e.prog.Fset.Position(f.block.Instrs[f.pc].Pos())
		if p.IsValid() {
			pos = fmt.Sprintf(" (%s:%d)", shortFile(p.Filename), p.Line)
		}
	}
	return f.fn.String() + pos
}

func shortFile(s string) string {
	if i := strings.LastIndex(s, "/"); i >= 0 {
		j := strings.LastIndex(s[:i], "/")
		return s[j+1:]
	}
	return s
}

func (e *Engine) stack() []string {
	var out []string
	if e.cur == nil {
		return nil
	}
	for i := len(e.cur.frames) - 1; i >= 0 && len(out) < 12; i-- {
		out = append(out, e.where(e.cur.frames[i]))
	}
	return out
}

// ---- decisions ----

// replaying reports whether the next decision comes from the prefix.
func (e *Engine) replaying() bool { return len(e.trace) < len(e.prefix) }

// record appends a decision with its path-condition conjunct, keeping the
// solver stack aligned (one level per decision).
func (e *Engine) record(d Decision, cond *Term) {
	idx := len(e.trace)
	e.trace = append(e.trace, d)
	e.pc = append(e.pc, cond)
	if cond != nil {
		e.known[cond.id] = true
	}
	// Shard assignment must not depend on the order in which the solver happens
	// to enumerate values: a concretisation contributes only the value finally
	// chosen on this path (its "t != v" steps are artefacts of the enumeration
	// order), and counts as a fork level whether or not other values remained.
	shardLevel := d.F
	if d.Conc {
		shardLevel = d.C == 1
	}
	if shardLevel && e.cfg.NShards > 1 {
		if d.Conc {
			e.forkStr = append(e.forkStr, 0xfe, byte(d.V), byte(d.V>>8), byte(d.V>>16), byte(d.V>>24))
		} else {
			e.forkStr = append(e.forkStr, byte(d.C))
		}
		e.forks++
		if e.forks == e.cfg.SplitK && !e.mine() {
			defer e.end("notmine", "subtree belongs to another shard")
		}
	}
	// solver level idx+1 corresponds to decisions[0..idx]
	if e.solver.Level() <= idx {
		e.solver.Push()
		if cond != nil {
			e.solver.Assert(cond)
		}
	}
}

// mine reports whether the subtree identified by the first SplitK fork choices
// (or the whole, shorter, path) is assigned to this shard.
func (e *Engine) mine() bool {
	if e.cfg.NShards <= 1 {
		return true
	}
	h := uint32(2166136261)
	for _, b := range e.forkStr {
		h ^= uint32(b)
		h *= 16777619
	}
	return int(h%uint32(e.cfg.NShards)) == e.cfg.Shard
}

func (e *Engine) pushWork(alt Decision) {
	p := make([]Decision, len(e.trace)+1)
	copy(p, e.trace)
	p[len(e.trace)] = alt
	e.work = append(e.work, p)
}

func (e *Engine) checkBudget() {
	if e.cfg.Timeout > 0 && time.Since(e.start) > e.cfg.Timeout {
		e.end("budget", "wall-clock budget exhausted")
	}
}

func (e *Engine) query(t *Term) Result {
	r := e.solver.CheckAssuming(t)
	if r == RUnknown {
		e.end("error", "solver returned unknown/timeout on a feasibility query")
	}
	return r
}

// branch decides a boolean condition, forking when both sides are feasible.
func (e *Engine) branch(c *Term) bool {
	if c.IsConst() {
		return c.Val == 1
	}
	if e.known[c.id] {
		return true
	}
	if e.known[Not(c).id] {
		return false
	}
	e.Branches++
	if e.replaying() {
		d := e.prefix[len(e.trace)]
		if d.C == 1 {
			e.record(d, c)
			return true
		}
		e.record(d, Not(c))
		return false
	}
	e.checkBudget()
	rt := e.query(c)
	if rt == RUnsat {
		e.record(Decision{C: 0}, Not(c))
		return false
	}
	rf := e.query(Not(c))
	if rf == RUnsat {
		e.record(Decision{C: 1}, c)
		return true
	}
	// both feasible: explore true first, queue false
	e.pushWork(Decision{C: 0, F: true})
	e.record(Decision{C: 1, F: true}, c)
	return true
}

// assume adds c to the path condition; ends the path if infeasible.
func (e *Engine) assume(c *Term) {
	if c.IsTrue() {
		return
	}
	if c.IsFalse() {
		e.end("infeasible", "assume(false)")
	}
	if e.replaying() {
		d := e.prefix[len(e.trace)]
		e.record(d, c)
		return
	}
	if e.query(c) == RUnsat {
		e.end("infeasible", "assumption unsatisfiable")
	}
	e.record(Decision{C: 1}, c)
}

// choose picks one of n alternatives (all feasible, e.g. select cases).
func (e *Engine) choose(n int) int {
	if n <= 1 {
		return 0
	}
	if e.replaying() {
		d := e.prefix[len(e.trace)]
		e.record(d, nil)
		return d.C
	}
	for i := n - 1; i >= 1; i-- {
		e.pushWork(Decision{C: i, F: true})
	}
	e.record(Decision{C: 0, F: true}, nil)
	return 0
}

// concretize forks over the feasible values of t (at most limit of them).
func (e *Engine) concretize(t *Term, limit int, what string) uint64 {
	if t.IsConst() {
		return t.Val
	}
	for n := 0; ; n++ {
		if n > limit {
			e.end("unwind", fmt.Sprintf("concretisation of %s exceeded %d values", what, limit))
		}
		if e.replaying() {
			d := e.prefix[len(e.trace)]
			v := BVC(t.S.W, d.V)
			if d.C == 1 {
				e.record(d, Eq(t, v))
				return d.V
			}
			e.record(d, Not(Eq(t, v)))
			continue
		}
		e.checkBudget()
		// ask for some value
		if e.solver.Check() != RSat {
			e.end("error", "solver could not produce a model for concretisation")
		}
		vals, err := e.solver.GetValues([]*Term{t})
		if err != nil {
			e.end("error", err.Error())
		}
		v := vals[0]
		vt := BVC(t.S.W, v)
		// is any other value feasible?
		fork := e.query(Not(Eq(t, vt))) == RSat
		if fork {
			e.pushWork(Decision{C: 0, V: v, F: true, Conc: true})
		}
		e.record(Decision{C: 1, V: v, F: fork, Conc: true}, Eq(t, vt))
		return v
	}
}

// ---- obligations ----

func (e *Engine) nondetTerms() []*Term { return e.nondets }

func (e *Engine) modelNow() (map[string]uint64, []string, map[string]*BytesModel) {
	m := map[string]uint64{}
	var order []string
	vals, err := e.solver.GetValues(e.nondets)
	if err != nil {
		e.Inconclusive = append(e.Inconclusive, "model extraction: "+err.Error())
		return m, order, nil
	}
	for i, t := range e.nondets {
		m[t.Name] = vals[i]
		order = append(order, t.Name)
	}
	bm := map[string]*BytesModel{}
	for _, nb := range e.nondetArr {
		lv, err := e.solver.GetValues([]*Term{nb.Len})
		if err != nil {
			continue
		}
		b := &BytesModel{Len: lv[0], Data: map[string]uint64{}}
		if def, ents, aerr := e.solver.GetArray(nb.Arr); aerr == nil {
			b.Default = def
			for idx, v := range ents {
				if idx < lv[0] && v != def {
					b.Data[fmt.Sprint(idx)] = v
				}
			}
			bm[nb.Name] = b
			continue
		}
		n := lv[0]
		if n > 96 {
			n = 96
		}
		var sel []*Term
		for i := uint64(0); i < n; i++ {
			sel = append(sel, Select(nb.Arr, BVC(64, i)))
		}
		// tail bytes too (block ends matter)
		if lv[0] > 96 {
			for i := lv[0] - 8; i < lv[0]; i++ {
				sel = append(sel, Select(nb.Arr, BVC(64, i)))
			}
		}
		vs, err := e.solver.GetValues(sel)
		if err == nil {
			for i, v := range vs {
				if v != 0 {
					idx := uint64(i)
					if uint64(i) >= n {
						idx = lv[0] - 8 + (uint64(i) - n)
					}
					b.Data[fmt.Sprint(idx)] = v
				}
			}
		}
		bm[nb.Name] = b
	}
	return m, order, bm
}

// prove checks that c holds on the current path; records a violation otherwise
// and continues under the assumption c.
func (e *Engine) prove(c *Term, label, kind, msg string) {
	e.Obligations++
	if c.IsTrue() {
		e.Discharged++
		return
	}
	if e.replaying() {
		// already decided in an earlier execution of this prefix
		d := e.prefix[len(e.trace)]
		e.Obligations--
		e.record(d, c)
		return
	}
	e.checkBudget()
	nc := Not(c)
	e.solver.Push()
	e.solver.Assert(nc)
	r := e.solver.Check()
	if r == RUnknown {
		e.solver.Pop()
		e.end("error", "solver returned unknown on obligation "+label)
	}
	if r == RSat {
		e.violCount[label]++
		if e.violCount[label] <= e.cfg.MaxViolPerLabel {
			m, order, bm := e.modelNow()
			v := &Violation{Label: label, Kind: kind, Msg: msg, Model: m, Order: order, Bytes: bm, Stack: e.stack(), PathID: e.pathID}
			v.Trace = append(v.Trace, e.ghostLog...)
			e.Violations = append(e.Violations, v)
		}
		e.solver.Pop()
		if c.IsFalse() {
			e.end("stop", "violation "+label)
		}
		// continue with c assumed
		if e.query(c) == RUnsat {
			e.end("stop", "violation "+label+" (always)")
		}
		e.record(Decision{C: 1}, c)
		return
	}
	e.solver.Pop()
	e.Discharged++
	e.record(Decision{C: 1}, c)
}

// cover records that label is reachable with c true on this path.
func (e *Engine) cover(c *Term, label string) {
	if e.CoverHit[label] > 0 && !c.IsTrue() {
		// already witnessed; no need for another query
		return
	}
	if c.IsFalse() {
		return
	}
	if c.IsTrue() {
		e.CoverHit[label]++
		return
	}
	if e.replaying() {
		return
	}
	if e.solver.CheckAssuming(c) == RSat {
		e.CoverHit[label]++
	}
}

// ---- running ----

type RunResult struct {
	Harness      string         `json:"harness"`
	Verdict      string         `json:"verdict"` // pass, violation, inconclusive
	Paths        int            `json:"paths"`
	PathEnds     map[string]int `json:"path_ends"`
	Branches     int            `json:"branch_decisions"`
	Obligations  int            `json:"obligations"`
	Discharged   int            `json:"discharged"`
	Violations   []*Violation   `json:"violations"`
	ViolCount    map[string]int `json:"violation_counts"`
	Covers       map[string]int `json:"covers"`
	Samples      []*Sample      `json:"samples"`
	Funcs        map[string]int `json:"functions_encoded"`
	Stubs        map[string]int `json:"stubs"`
	Inconclusive []string       `json:"inconclusive"`
	Queries      int            `json:"solver_queries"`
	Sat          int            `json:"sat"`
	Unsat        int            `json:"unsat"`
	Unknown      int            `json:"unknown"`
	SolverS      float64        `json:"solver_s"`
	WallS        float64        `json:"wall_s"`
	LoadS        float64        `json:"load_s"`
	Bounds       map[string]interface{} `json:"bounds"`
	SolverErrors []string       `json:"solver_errors"`
	MaxDepth     int            `json:"max_depth"`
	IfConverted  int            `json:"if_converted"`
	Fallbacks    int            `json:"solver_fallbacks"`
	MaxQueryS    float64        `json:"max_query_s"`
	AuxS         float64        `json:"fallback_solver_s"`
	AuxWins      map[string]int `json:"fallback_wins"`
}

func (e *Engine) Explore(fn *ssa.Function) {
	e.start = time.Now()
	e.work = [][]Decision{{}}
	for len(e.work) > 0 {
		if e.cfg.MaxPaths > 0 && e.Paths >= e.cfg.MaxPaths {
			e.Inconclusive = append(e.Inconclusive, fmt.Sprintf("path budget %d exhausted with %d prefixes pending", e.cfg.MaxPaths, len(e.work)))
			return
		}
		if e.cfg.Timeout > 0 && time.Since(e.start) > e.cfg.Timeout {
			e.Inconclusive = append(e.Inconclusive, fmt.Sprintf("wall-clock budget exhausted with %d prefixes pending", len(e.work)))
			return
		}
		p := e.work[len(e.work)-1]
		e.work = e.work[:len(e.work)-1]
		e.runPath(fn, p)
		if len(e.solver.Errors) > 0 {
			e.Inconclusive = append(e.Inconclusive, "solver error: "+e.solver.Errors[0])
			return
		}
	}
}

func (e *Engine) resetPath() {
	e.trace = e.trace[:0]
	e.pc = e.pc[:0]
	e.gs = nil
	e.cur = nil
	e.objSeq = 1 << 20
	e.nondetSeq = 0
	e.nondets = nil
	e.nondetArr = nil
	e.steps = 0
	e.schedUsed = 0
	e.observes = nil
	e.covers = map[string]bool{}
	e.ghostLog = nil
	e.maxMake = I64C(0)
	e.spawned = nil
	e.timeNow = nil
	e.envSeq = 0
	e.known = map[int]bool{}
	e.forkStr = e.forkStr[:0]
	e.forks = 0
	e.timerChans = nil
	e.timerResets = nil
	e.ghosts = nil
	e.wg = nil
	e.sha1Memo = map[string]*Term{}
	// restore init-phase objects
	for _, o := range e.initObjs {
		o.V = o.snap
	}
	for _, m := range e.initMaps {
		m.Entries = append([]mapEntry(nil), m.snap...)
	}
}

func (e *Engine) runPath(fn *ssa.Function, prefix []Decision) {
	e.pathID++
	e.Paths++
	e.prefix = prefix
	// align solver: levels beyond the common prefix are popped. The new prefix
	// shares all but its last decision with the previous trace (DFS order), but
	// compute the common length defensively.
	common := 0
	for common < len(prefix) && common < len(e.trace) && prefix[common] == e.trace[common] {
		common++
	}
	e.solver.PopTo(common)
	e.resetPath()
	endKind, endMsg := "ok", ""
	func() {
		defer func() {
			if r := recover(); r != nil {
				if pe, ok := r.(pathEnd); ok {
					endKind, endMsg = pe.kind, pe.msg
					return
				}
				panic(r)
			}
		}()
		g := e.newG()
		e.cur = g
		e.pushFrame(g, fn, nil, nil, nil)
		e.run()
	}()
	if len(e.trace) > e.MaxDepth {
		e.MaxDepth = len(e.trace)
	}
	if e.cfg.NShards > 1 && e.forks < e.cfg.SplitK && !e.mine() {
		// a short path every shard walks; only its owner accounts for it
		e.Paths--
		if endKind == "ok" || endKind == "infeasible" || endKind == "stop" {
			return
		}
	}
	e.PathEnds[endKind]++
	switch endKind {
	case "ok", "infeasible", "stop", "notmine":
	case "gopanic":
		if !e.cfg.PanicOK {
			e.reportPathViolation("panic", "panic: "+panicLabel(endMsg), endMsg)
		}
	case "deadlock":
		e.reportPathViolation("deadlock", "deadlock", endMsg)
	case "unwind":
		if e.cfg.UnwindIsBug {
			e.reportPathViolation("unwind", "nontermination", endMsg)
		} else {
			e.Inconclusive = append(e.Inconclusive, "unwinding bound hit: "+endMsg)
		}
	case "budget":
		e.Inconclusive = append(e.Inconclusive, endMsg)
	default:
		e.Inconclusive = append(e.Inconclusive, endKind+": "+endMsg)
	}
	if endKind == "ok" && len(e.Samples) < e.cfg.Samples {
		e.sample(endKind)
	}
	if e.cfg.Verbose {
		fmt.Fprintf(os.Stderr, "path %d: %s %s depth=%d work=%d\n", e.pathID, endKind, endMsg, len(e.trace), len(e.work))
	}
}

func panicLabel(msg string) string {
	if i := strings.Index(msg, "\n"); i >= 0 {
		msg = msg[:i]
	}
	if len(msg) > 100 {
		msg = msg[:100]
	}
	return msg
}

func (e *Engine) sample(end string) {
	if e.solver.Check() != RSat {
		return
	}
	m, order, bm := e.modelNow()
	var cv []string
	for k := range e.covers {
		cv = append(cv, k)
	}
	sort.Strings(cv)
	e.Samples = append(e.Samples, &Sample{PathID: e.pathID, End: end, Model: m, Order: order, Bytes: bm, Observe: append([]string(nil), e.observes...), Covers: cv})
}

// reportPathViolation records a violation for a path that ended abnormally.
func (e *Engine) reportPathViolation(kind, label, msg string) {
	e.violCount[label]++
	if e.violCount[label] > e.cfg.MaxViolPerLabel {
		return
	}
	v := &Violation{Label: label, Kind: kind, Msg: msg, PathID: e.pathID, Stack: e.lastStack}
	if e.solver.Check() == RSat {
		v.Model, v.Order, v.Bytes = e.modelNow()
	}
	v.Trace = append(v.Trace, e.ghostLog...)
	e.Violations = append(e.Violations, v)
}

func typeString(t types.Type) string { return types.TypeString(t, nil) }
