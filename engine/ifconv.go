package main

// If-conversion of side-effect-free branch regions (&&, ||, conditional
// expressions): instead of forking, both arms are evaluated and the join
// block's phi values become ite terms. Only instructions that can neither
// panic, nor allocate, nor require a solver decision are executed
// speculatively; anything else falls back to an ordinary fork.

import (
	"go/token"
	"go/types"

	"golang.org/x/tools/go/ssa"
)

const (
	specMaxDepth  = 6
	specMaxInstrs = 24
)

func phiCount(b *ssa.BasicBlock) int {
	n := 0
	for _, in := range b.Instrs {
		if _, ok := in.(*ssa.Phi); !ok {
			break
		}
		n++
	}
	return n
}

func (e *Engine) phiEdges(f *Frame, join, from *ssa.BasicBlock) []Value {
	idx := -1
	for i, p := range join.Preds {
		if p == from {
			idx = i
			break
		}
	}
	n := phiCount(join)
	vals := make([]Value, n)
	for i := 0; i < n; i++ {
		vals[i] = e.get(f, join.Instrs[i].(*ssa.Phi).Edges[idx])
	}
	return vals
}

func (e *Engine) jumpWith(f *Frame, join *ssa.BasicBlock, vals []Value) {
	f.prev = f.block
	f.block = join
	for i, v := range vals {
		f.regs[join.Instrs[i].(*ssa.Phi)] = v
	}
	f.pc = len(vals)
}

func mergeVals(c *Term, a, b []Value) ([]Value, bool) {
	out := make([]Value, len(a))
	for i := range a {
		ta, oka := a[i].(*Term)
		tb, okb := b[i].(*Term)
		if oka && okb && ta.S == tb.S {
			out[i] = Ite(c, ta, tb)
			continue
		}
		if a[i] == b[i] {
			out[i] = a[i]
			continue
		}
		pa, oka2 := a[i].(*Pointer)
		pb, okb2 := b[i].(*Pointer)
		if oka2 && okb2 && pa.IsNil() && pb.IsNil() {
			out[i] = a[i]
			continue
		}
		return nil, false
	}
	return out, true
}

// specIf tries to if-convert the If that terminates block b (condition c).
func (e *Engine) specIf(f *Frame, b *ssa.BasicBlock, c *Term, depth int) (*ssa.BasicBlock, []Value, bool) {
	if depth > specMaxDepth {
		return nil, nil, false
	}
	T, F := b.Succs[0], b.Succs[1]
	if T == F {
		return nil, nil, false
	}
	jT, vT, okT := e.specRegion(f, T, depth)
	if okT && jT == F {
		if vals, ok := mergeVals(c, vT, e.phiEdges(f, F, b)); ok {
			return F, vals, true
		}
		return nil, nil, false
	}
	jF, vF, okF := e.specRegion(f, F, depth)
	if okF && jF == T {
		if vals, ok := mergeVals(c, e.phiEdges(f, T, b), vF); ok {
			return T, vals, true
		}
		return nil, nil, false
	}
	if okT && okF && jT == jF {
		if vals, ok := mergeVals(c, vT, vF); ok {
			return jT, vals, true
		}
	}
	return nil, nil, false
}

// specRegion speculatively executes the pure block blk (entered from its only
// predecessor) and returns the block where control re-joins, with the values
// the join's phis receive when control arrives through this region.
func (e *Engine) specRegion(f *Frame, blk *ssa.BasicBlock, depth int) (*ssa.BasicBlock, []Value, bool) {
	if len(blk.Preds) != 1 || len(blk.Instrs) > specMaxInstrs {
		return nil, nil, false
	}
	n := len(blk.Instrs)
	for _, in := range blk.Instrs[:n-1] {
		if !e.specExec(f, in) {
			return nil, nil, false
		}
	}
	switch t := blk.Instrs[n-1].(type) {
	case *ssa.Jump:
		j := blk.Succs[0]
		return j, e.phiEdges(f, j, blk), true
	case *ssa.If:
		c, ok := e.get(f, t.Cond).(*Term)
		if !ok {
			return nil, nil, false
		}
		if c.IsConst() {
			// follow the taken side if it is a plain edge into a join
			return nil, nil, false
		}
		return e.specIf(f, blk, c, depth+1)
	}
	return nil, nil, false
}

func scalarOrPtr(v Value) bool {
	switch v.(type) {
	case *Term, *Float:
		return true
	}
	return false
}

// specExec executes in if it is pure; reports false otherwise.
func (e *Engine) specExec(f *Frame, instr ssa.Instruction) bool {
	switch in := instr.(type) {
	case *ssa.DebugRef:
		return true
	case *ssa.BinOp:
		x, y := e.get(f, in.X), e.get(f, in.Y)
		if !scalarOrPtr(x) || !scalarOrPtr(y) {
			px, okx := x.(*Pointer)
			py, oky := y.(*Pointer)
			if okx && oky && (in.Op == token.EQL || in.Op == token.NEQ) && px.Sym == nil && py.Sym == nil {
				f.regs[in] = e.binop(in.Op, in.X.Type(), x, y, in.Y.Type())
				return true
			}
			return false
		}
		switch in.Op {
		case token.QUO, token.REM:
			yt, ok := y.(*Term)
			if !ok || !yt.IsConst() || yt.Val == 0 {
				return false
			}
		case token.SHL, token.SHR:
			_, signed, _ := typeIntInfo(in.Y.Type())
			if yt, ok := y.(*Term); signed && !(ok && yt.IsConst() && yt.SVal() >= 0) {
				return false
			}
		}
		f.regs[in] = e.binop(in.Op, in.X.Type(), x, y, in.Y.Type())
		return true
	case *ssa.UnOp:
		x := e.get(f, in.X)
		switch in.Op {
		case token.NOT, token.SUB, token.XOR:
			if !scalarOrPtr(x) {
				return false
			}
			f.regs[in] = e.unop(in, x)
			return true
		case token.MUL:
			p, ok := x.(*Pointer)
			if !ok || p.IsNil() {
				return false
			}
			f.regs[in] = e.load(p)
			return true
		}
		return false
	case *ssa.Convert:
		x, ok := e.get(f, in.X).(*Term)
		if !ok {
			return false
		}
		if _, _, isInt := typeIntInfo(in.Type()); !isInt {
			return false
		}
		if _, _, isInt := typeIntInfo(in.X.Type()); !isInt {
			return false
		}
		f.regs[in] = e.convert(in.X.Type(), in.Type(), x)
		return true
	case *ssa.ChangeType:
		f.regs[in] = e.get(f, in.X)
		return true
	case *ssa.Extract:
		f.regs[in] = e.get(f, in.Tuple).(Tuple)[in.Index]
		return true
	case *ssa.Field:
		f.regs[in] = e.get(f, in.X).(*Struct).F[in.Field]
		return true
	case *ssa.FieldAddr:
		p, ok := e.get(f, in.X).(*Pointer)
		if !ok || p.IsNil() {
			return false
		}
		f.regs[in] = &Pointer{O: p.O, Path: extendPath(p.Path, in.Field)}
		return true
	case *ssa.Call:
		b, ok := in.Call.Value.(*ssa.Builtin)
		if !ok || in.Call.IsInvoke() {
			return false
		}
		switch b.Name() {
		case "len", "cap":
			a := e.get(f, in.Call.Args[0])
			switch a.(type) {
			case *Slice, *String:
				f.regs[in] = e.builtin(b, []Value{a}, &callSite{instr: in, frame: f})
				return true
			}
			return false
		case "min", "max":
			args := make([]Value, len(in.Call.Args))
			for i, a := range in.Call.Args {
				args[i] = e.get(f, a)
				if _, ok := args[i].(*Term); !ok {
					return false
				}
			}
			if _, _, isInt := typeIntInfo(in.Call.Args[0].Type()); !isInt {
				return false
			}
			f.regs[in] = e.builtin(b, args, &callSite{instr: in, frame: f})
			return true
		}
		return false
	}
	return false
}

var _ = types.Typ
