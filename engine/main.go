package main

import (
	"encoding/json"
	"flag"
	"fmt"
	"os"
	"os/exec"
	"path/filepath"
	"regexp"
	"sort"
	"strings"
	"time"

	"golang.org/x/tools/go/packages"
	"golang.org/x/tools/go/ssa"
	"golang.org/x/tools/go/ssa/ssautil"
)

// overlayFromHarnessDir maps /verif/harness/<rel>/zz_*.go to <repo>/<rel>/zz_*.go
// and /verif/harness/vrt/*.go to <repo>/internal/zzvrt/*.go.
func overlayFromHarnessDir(hdir, repo string) (map[string][]byte, map[string]string, error) {
	ov := map[string][]byte{}
	real := map[string]string{}
	err := filepath.Walk(hdir, func(p string, info os.FileInfo, err error) error {
		if err != nil {
			return err
		}
		if info.IsDir() || !strings.HasSuffix(p, ".go") {
			return nil
		}
		rel, _ := filepath.Rel(hdir, p)
		var dst string
		if strings.HasPrefix(rel, "vrt/") {
			dst = filepath.Join(repo, "internal/zzvrt", strings.TrimPrefix(rel, "vrt/"))
		} else {
			dst = filepath.Join(repo, rel)
		}
		if strings.HasSuffix(p, "_test.go") {
			return nil // replay drivers are for the native run only
		}
		b, err := os.ReadFile(p)
		if err != nil {
			return err
		}
		ov[dst] = b
		real[dst] = p
		return nil
	})
	return ov, real, err
}

var directiveRe = regexp.MustCompile(`(?m)^//vrt:(\w+)\s+(.*)$`)

func main() {
	var (
		repo     = flag.String("repo", "/repo", "repository root")
		hdir     = flag.String("harness", "/verif/harness", "harness directory (overlaid into the repository)")
		pkgPat   = flag.String("pkg", "", "package path of the harness (import path)")
		fnName   = flag.String("fn", "", "harness function name")
		unwind   = flag.Int("unwind", 8, "loop unwinding bound (symbolic branch decisions per loop header per frame)")
		maxPaths = flag.Int("maxpaths", 200000, "path budget")
		maxSteps = flag.Int64("maxsteps", 5000000, "instruction budget per path")
		maxAlloc = flag.Int("maxalloc", 64, "bound for concretised lengths/indexes")
		timeout  = flag.Duration("timeout", 10*time.Minute, "wall-clock budget")
		solverMs = flag.Int("solverms", 60000, "per-query solver timeout (ms)")
		samples  = flag.Int("samples", 5, "number of completed paths to sample with a model")
		z3bin    = flag.String("z3", "z3-new", "incremental solver binary (z3 5.1.0: its incremental core handles the array-heavy string queries an order of magnitude faster than 4.8.12); falls back to z3")
		out      = flag.String("out", "", "result JSON file (default stdout)")
		smtlog   = flag.String("smtlog", "", "write the SMT-LIB2 dialogue to this file")
		verbose  = flag.Bool("v", false, "verbose")
		panicOK  = flag.Bool("panicok", false, "uncaught panics are not violations")
		unwindBug = flag.Bool("unwindbug", false, "hitting the unwinding bound is the violation")
		nospawn  = flag.Bool("nospawn", false, "do not run goroutines started with go")
		sched    = flag.Int("sched", 0, "scheduling points per path that fork over all runnable goroutines (0: always the lowest-numbered)")
		revmaps  = flag.Bool("revmaps", false, "iterate maps in reverse insertion order")
		maxViol  = flag.Int("maxviol", 3, "models kept per violated label")
		shard    = flag.Int("shard", 0, "shard index")
		nshards  = flag.Int("nshards", 1, "number of shards (processes) exploring this harness")
		splitk   = flag.Int("splitk", 7, "fork depth at which subtrees are assigned to shards")
		auxbin   = flag.String("aux", "z3,z3-new,cvc5int", "fallback (non-incremental) solver binary")
		noifconv = flag.Bool("noifconv", false, "disable if-conversion")
		listFns  = flag.Bool("list", false, "list harness functions in the package and exit")
		gobin    = flag.String("gobin", "/opt/veriftools/go1.26.8/bin", "directory of the go toolchain used to load the repository")
	)
	flag.Parse()
	t0 := time.Now()
	os.Setenv("PATH", *gobin+":"+os.Getenv("PATH"))
	os.Setenv("GOTOOLCHAIN", "local")
	os.Setenv("GOFLAGS", "-mod=mod")
	os.Setenv("GOPROXY", "off")
	os.Setenv("GOSUMDB", "off")

	ov, _, err := overlayFromHarnessDir(*hdir, *repo)
	if err != nil {
		fatal("overlay: %v", err)
	}
	cfg := &packages.Config{
		Mode:    packages.LoadAllSyntax,
		Dir:     *repo,
		Overlay: ov,
		Tests:   false,
	}
	pkgs, err := packages.Load(cfg, *pkgPat)
	if err != nil {
		fatal("load: %v", err)
	}
	nerr := 0
	packages.Visit(pkgs, nil, func(p *packages.Package) {
		for _, e := range p.Errors {
			if nerr < 10 {
				fmt.Fprintf(os.Stderr, "load error: %v\n", e)
			}
			nerr++
		}
	})
	if nerr > 0 {
		result := &RunResult{Harness: *pkgPat + "." + *fnName, Verdict: "inconclusive", Inconclusive: []string{fmt.Sprintf("harness does not load: %d type/load errors", nerr)}}
		writeResult(result, *out)
		os.Exit(2)
	}
	prog, spkgs := ssautil.AllPackages(pkgs, ssa.InstantiateGenerics)
	prog.Build()
	loadS := time.Since(t0).Seconds()
	var hpkg *ssa.Package
	for i, p := range pkgs {
		if p.PkgPath == *pkgPat || strings.HasSuffix(p.PkgPath, *pkgPat) {
			hpkg = spkgs[i]
		}
	}
	if hpkg == nil {
		fatal("package %s not found", *pkgPat)
	}
	if *listFns {
		var names []string
		for n, m := range hpkg.Members {
			if _, ok := m.(*ssa.Function); ok && strings.HasPrefix(n, "ZZ") {
				names = append(names, n)
			}
		}
		sort.Strings(names)
		fmt.Println(strings.Join(names, "\n"))
		return
	}
	fn := hpkg.Func(*fnName)
	if fn == nil {
		result := &RunResult{Harness: *pkgPat + "." + *fnName, Verdict: "inconclusive", Inconclusive: []string{"harness function not found"}}
		writeResult(result, *out)
		os.Exit(2)
	}

	var logw *os.File
	if *smtlog != "" {
		logw, err = os.Create(*smtlog)
		if err != nil {
			fatal("smtlog: %v", err)
		}
		defer logw.Close()
	}
	if _, lerr := exec.LookPath(*z3bin); lerr != nil {
		*z3bin = "z3"
	}
	var solver *Solver
	if logw != nil {
		solver, err = NewSolver(*z3bin, *solverMs, logw)
	} else {
		solver, err = NewSolver(*z3bin, *solverMs, nil)
	}
	if err != nil {
		fatal("solver: %v", err)
	}
	defer solver.Close()
	solver.auxBin = *auxbin

	ecfg := Config{Unwind: *unwind, MaxPaths: *maxPaths, MaxSteps: *maxSteps, MaxAlloc: *maxAlloc, Timeout: *timeout,
		SolverMs: *solverMs, Samples: *samples, PanicOK: *panicOK, UnwindIsBug: *unwindBug, NoSpawn: *nospawn, SchedBound: *sched,
		Verbose: *verbose, MaxViolPerLabel: *maxViol, ReverseMaps: *revmaps, NoIfConv: *noifconv, Shard: *shard, NShards: *nshards, SplitK: *splitk}
	e := NewEngine(prog, ecfg, solver)

	// directives from harness files of this package
	required := []string{}
	replaceOwn := map[string]bool{}
	var ambiguous []string
	hdirOf := filepath.Join(*repo, strings.TrimPrefix(hpkg.Pkg.Path(), "github.com/cenkalti/rain/v2"))
	// //vrt:use <repo-relative package dir>: also apply that harness package's replace directives
	uses := map[string]bool{}
	for path, src := range ov {
		if filepath.Dir(path) != hdirOf {
			continue
		}
		for _, m := range directiveRe.FindAllStringSubmatch(string(src), -1) {
			if m[1] == "use" {
				for _, d := range strings.Fields(m[2]) {
					uses[filepath.Join(*repo, d)] = true
				}
			}
		}
	}
	for path, src := range ov {
		for _, m := range directiveRe.FindAllStringSubmatch(string(src), -1) {
			args := strings.Fields(m[2])
			switch m[1] {
			case "replace":
				// //vrt:replace <full callee name> <pkgpath>.<func>   (only for listed harnesses, or all)
				if len(args) < 2 {
					fatal("%s: bad replace directive", path)
				}
				if len(args) > 2 && !contains(args[2:], *fnName) {
					continue
				}
				rf := findFunc(prog, args[1])
				if rf == nil {
					// harness for another package not loaded in this run
					continue
				}
				// a directive in the harness's own package wins over one that comes
				// from a package it merely imports; nospawn-style ambiguity between
				// two foreign packages is an error
				own := filepath.Dir(path) == hdirOf
				if !own && !uses[filepath.Dir(path)] {
					continue // foreign directives apply only when imported with //vrt:use
				}
				if prev, ok := replaceOwn[args[0]]; ok {
					if prev && !own {
						continue
					}
					if !prev && !own && e.replace[args[0]] != rf {
						ambiguous = append(ambiguous, args[0])
					}
				}
				replaceOwn[args[0]] = own
				e.replace[args[0]] = rf
			case "nospawn":
				if len(args) > 1 && !contains(args[1:], *fnName) {
					continue
				}
				if filepath.Dir(path) != hdirOf {
					continue
				}
				if e.noSpawn == nil {
					e.noSpawn = map[string]bool{}
				}
				e.noSpawn[args[0]] = true
			case "cover":
				// //vrt:cover <harness> <label words...>
				if len(args) >= 2 && args[0] == *fnName {
					required = append(required, strings.Join(args[1:], " "))
				}
			}
		}
	}

	e.Explore(fn)

	res := &RunResult{
		Harness: hpkg.Pkg.Path() + "." + *fnName, Paths: e.Paths, PathEnds: e.PathEnds, Branches: e.Branches,
		Obligations: e.Obligations, Discharged: e.Discharged, Violations: e.Violations, ViolCount: e.violCount,
		Covers: e.CoverHit, Samples: e.Samples, Funcs: e.FuncsRun, Stubs: e.StubsUsed, Inconclusive: dedup(e.Inconclusive),
		Queries: solver.Queries, Sat: solver.Sat, Unsat: solver.Unsat, Unknown: solver.Unknown,
		SolverS: solver.Time.Seconds(), WallS: time.Since(t0).Seconds(), LoadS: loadS, SolverErrors: solver.Errors, MaxDepth: e.MaxDepth, IfConverted: e.IfConverted, Fallbacks: solver.Fallbacks, MaxQueryS: solver.MaxQuery.Seconds(), AuxS: solver.AuxTime.Seconds(), AuxWins: solver.AuxWins,
		Bounds: map[string]interface{}{"unwind": *unwind, "maxalloc": *maxAlloc, "maxpaths": *maxPaths, "timeout_s": timeout.Seconds(), "reverse_maps": *revmaps},
	}
	for _, a := range ambiguous {
		if !replaceOwn[a] {
			res.Inconclusive = append(res.Inconclusive, "ambiguous //vrt:replace for "+a+" in two imported harness packages")
		}
	}
	for _, lbl := range required {
		if e.CoverHit[lbl] == 0 {
			res.Inconclusive = append(res.Inconclusive, "VACUOUS: required cover not reached: "+lbl)
		}
	}
	switch {
	case len(res.Violations) > 0:
		res.Verdict = "violation"
	case len(res.Inconclusive) > 0 || solver.Unknown > 0 || len(solver.Errors) > 0:
		res.Verdict = "inconclusive"
	default:
		res.Verdict = "pass"
	}
	writeResult(res, *out)
	switch res.Verdict {
	case "violation":
		os.Exit(1)
	case "inconclusive":
		os.Exit(2)
	}
}

func contains(xs []string, x string) bool {
	for _, y := range xs {
		if y == x {
			return true
		}
	}
	return false
}

func dedup(xs []string) []string {
	seen := map[string]int{}
	var out []string
	for _, x := range xs {
		if seen[x] == 0 {
			out = append(out, x)
		}
		seen[x]++
	}
	for i, x := range out {
		if seen[x] > 1 {
			out[i] = fmt.Sprintf("%s (x%d)", x, seen[x])
		}
	}
	return out
}

func findFunc(prog *ssa.Program, full string) *ssa.Function {
	i := strings.LastIndex(full, ".")
	if i < 0 {
		return nil
	}
	pkg := prog.ImportedPackage(full[:i])
	if pkg == nil {
		return nil
	}
	return pkg.Func(full[i+1:])
}

func writeResult(r *RunResult, out string) {
	b, _ := json.MarshalIndent(r, "", " ")
	if out == "" {
		os.Stdout.Write(b)
		fmt.Println()
		return
	}
	os.WriteFile(out, b, 0o644)
}

func fatal(format string, args ...interface{}) {
	fmt.Fprintf(os.Stderr, "gosym: "+format+"\n", args...)
	os.Exit(3)
}
