package main

import (
	"fmt"
	"go/constant"
	"go/token"
	"go/types"
	"strings"

	"golang.org/x/tools/go/ssa"
)

type deferred struct {
	fn   Value
	args []Value
}

type Frame struct {
	fn       *ssa.Function
	block    *ssa.BasicBlock
	prev     *ssa.BasicBlock
	pc       int
	regs     map[ssa.Value]Value
	env      []Value
	defers   []deferred
	visits   map[int]int
	retTo    ssa.Value // register in the caller frame receiving the result
	isSync   bool      // boundary of a callSync
	isDefer  bool      // frame runs a deferred call
	owner    *Frame    // for deferred frames: the frame whose defer list it came from
	recovered bool
	panicV   *PanicV
	results  Value
}

type PanicV struct {
	V   Value
	Msg string
	Recovered bool
}

type pendingOp struct {
	kind   string // send, recv, select, wait
	ch     *ChanObj
	val    Value
	instr  ssa.Instruction
	states []*selState
	ready  func() bool
}

type selState struct {
	dir token.Token // types.SendOnly / RecvOnly
	ch  *ChanObj
	val Value
	isSend bool
}

type G struct {
	id        int
	frames    []*Frame
	blocked   *pendingOp
	done      bool
	panicking *PanicV
	lastRet   Value
	name      string
	yielded   bool // vrt.Yield in progress
}

// othersRunnable reports whether any goroutine other than g can make progress.
func (e *Engine) othersRunnable(g *G) bool {
	for _, o := range e.gs {
		if o == g || o.done {
			continue
		}
		if o.blocked == nil || (o.blocked.ready != nil && o.blocked.kind != "yield" && o.blocked.ready()) {
			return true
		}
	}
	return false
}

type callSite struct {
	instr ssa.CallInstruction
	frame *Frame
}

func (e *Engine) newG() *G {
	g := &G{id: len(e.gs)}
	e.gs = append(e.gs, g)
	return g
}

func (e *Engine) newObject(t types.Type, v Value, name string) *Object {
	e.objSeq++
	o := &Object{id: e.objSeq, V: v, T: t, Name: name}
	if e.inInit {
		o.init = true
		e.initObjs = append(e.initObjs, o)
	}
	return o
}

func (e *Engine) newMap(t *types.Map) *MapObj {
	e.objSeq++
	m := &MapObj{id: e.objSeq, T: t}
	if e.inInit {
		m.init = true
		e.initMaps = append(e.initMaps, m)
	}
	return m
}

func (e *Engine) pushFrame(g *G, fn *ssa.Function, args []Value, env []Value, retTo ssa.Value) *Frame {
	if fn.Blocks == nil {
		e.unsupported("call of function without body: %s", fn.String())
	}
	if len(g.frames) > 400 {
		e.end("unwind", "call depth exceeded 400 in "+fn.String())
	}
	f := &Frame{fn: fn, regs: make(map[ssa.Value]Value, 16), env: env, retTo: retTo}
	for i, p := range fn.Params {
		f.regs[p] = args[i]
	}
	f.block = fn.Blocks[0]
	e.FuncsRun[fn.String()]++
	g.frames = append(g.frames, f)
	return f
}

func (e *Engine) top(g *G) *Frame { return g.frames[len(g.frames)-1] }

// run is the scheduler loop: executes the current goroutine until the main
// goroutine returns.
func (e *Engine) run() {
	for {
		g := e.cur
		if g.done {
			if g.id == 0 {
				return
			}
			e.schedule()
			continue
		}
		if g.blocked != nil {
			e.schedule()
			continue
		}
		e.step(g)
	}
}

// schedule picks the next goroutine to run at a blocking point. By default the
// lowest-numbered goroutine that can make progress; with SchedBound > 0 up to
// that many scheduling points per path fork over every runnable goroutine
// (bounded exploration of the non-preemptive schedules).
func (e *Engine) schedule() {
	var runnable []*G
	for _, g := range e.gs {
		if g.done {
			continue
		}
		if g.blocked == nil || (g.blocked.ready != nil && g.blocked.ready()) {
			runnable = append(runnable, g)
			if e.schedUsed >= e.cfg.SchedBound {
				break
			}
		}
	}
	if len(runnable) > 0 {
		i := 0
		if len(runnable) > 1 {
			i = e.choose(len(runnable))
			if i > 0 {
				e.schedUsed++
			}
		}
		g := runnable[i]
		g.blocked = nil
		e.cur = g
		return
	}
	// nobody can run
	var who []string
	for _, g := range e.gs {
		if !g.done && g.blocked != nil && len(g.frames) > 0 {
			who = append(who, fmt.Sprintf("g%d %s in %s", g.id, g.blocked.kind, e.where(e.top(g))))
		}
	}
	e.end("deadlock", "all goroutines blocked: "+strings.Join(who, "; "))
}

// callSync runs a call to completion on goroutine g (used for package
// initialisation and for callbacks from native stubs).
func (e *Engine) callSync(g *G, fv Value, args []Value) Value {
	depth := len(g.frames)
	g.lastRet = nil
	if done := e.doCall(g, fv, args, nil, nil); done {
		return g.lastRet
	}
	e.top(g).isSync = true
	for len(g.frames) > depth {
		if g.blocked != nil {
			e.unsupported("goroutine blocked inside a synchronous callback")
		}
		e.step(g)
	}
	return g.lastRet
}

func (e *Engine) step(g *G) {
	e.steps++
	if e.cfg.MaxSteps > 0 && e.steps > e.cfg.MaxSteps {
		e.end("unwind", fmt.Sprintf("step budget %d exhausted", e.cfg.MaxSteps))
	}
	if g.panicking != nil {
		e.unwindStep(g)
		return
	}
	f := e.top(g)
	instr := f.block.Instrs[f.pc]
	defer func() {
		if r := recover(); r != nil {
			if _, ok := r.(goPanicSignal); ok {
				return // g.panicking is set; unwinding starts at the next step
			}
			panic(r)
		}
	}()
	e.exec(g, f, instr)
}

func (e *Engine) jump(f *Frame, to *ssa.BasicBlock) {
	f.prev = f.block
	f.block = to
	f.pc = 0
	// evaluate phis simultaneously
	var vals []Value
	var phis []*ssa.Phi
	for _, in := range to.Instrs {
		phi, ok := in.(*ssa.Phi)
		if !ok {
			break
		}
		idx := -1
		for i, p := range to.Preds {
			if p == f.prev {
				idx = i
				break
			}
		}
		vals = append(vals, e.get(f, phi.Edges[idx]))
		phis = append(phis, phi)
	}
	for i, phi := range phis {
		f.regs[phi] = vals[i]
	}
	f.pc = len(phis)
}

func (e *Engine) get(f *Frame, v ssa.Value) Value {
	switch x := v.(type) {
	case *ssa.Const:
		return e.constVal(x)
	case *ssa.Function:
		return x
	case *ssa.Builtin:
		return x
	case *ssa.Global:
		return &Pointer{O: e.global(x)}
	case *ssa.FreeVar:
		for i, fv := range f.fn.FreeVars {
			if fv == x {
				return f.env[i]
			}
		}
		panic("freevar not found")
	}
	r, ok := f.regs[v]
	if !ok {
		e.unsupported("read of unset register %s (%T) in %s", v.Name(), v, f.fn)
	}
	return r
}

func (e *Engine) constVal(c *ssa.Const) Value {
	t := c.Type()
	if c.Value == nil {
		return zero(t)
	}
	if tp, ok := t.(*types.TypeParam); ok {
		t = tp.Underlying()
	}
	switch u := t.Underlying().(type) {
	case *types.Basic:
		switch {
		case u.Info()&types.IsBoolean != 0:
			return BoolC(constant.BoolVal(c.Value))
		case u.Info()&types.IsString != 0:
			if c.Value.Kind() == constant.String {
				return ConcStr(constant.StringVal(c.Value))
			}
			// rune const converted to string
			return ConcStr(c.Value.ExactString())
		case u.Info()&types.IsInteger != 0:
			w, _, _ := intWidth(u)
			if i, ok := constant.Int64Val(constant.ToInt(c.Value)); ok {
				return BVC(w, uint64(i))
			}
			if ui, ok := constant.Uint64Val(constant.ToInt(c.Value)); ok {
				return BVC(w, ui)
			}
			e.unsupported("integer constant out of range: %v", c)
		case u.Info()&types.IsFloat != 0:
			fv, _ := constant.Float64Val(c.Value)
			return &Float{fv}
		case u.Info()&types.IsComplex != 0:
			return &Float{0}
		}
	}
	e.unsupported("constant of type %v", t)
	return nil
}

// ---- globals and package init ----

func (e *Engine) global(gl *ssa.Global) *Object {
	if o, ok := e.globals[gl]; ok {
		return o
	}
	e.ensureInit(gl.Pkg)
	if o, ok := e.globals[gl]; ok {
		return o
	}
	return e.makeGlobal(gl)
}

func (e *Engine) makeGlobal(gl *ssa.Global) *Object {
	if o, ok := e.globals[gl]; ok {
		return o
	}
	elem := gl.Type().(*types.Pointer).Elem()
	saved := e.inInit
	e.inInit = true
	o := e.newObject(elem, zero(elem), gl.String())
	e.inInit = saved
	e.globals[gl] = o
	o.snap = o.V
	return o
}

// ensureInit runs the package's own initialisers (not its imports': they are
// initialised lazily when one of their globals is first touched).
func (e *Engine) ensureInit(pkg *ssa.Package) {
	if pkg == nil || e.initDone[pkg] {
		return
	}
	e.initDone[pkg] = true
	initFn := pkg.Func("init")
	if initFn == nil || initFn.Blocks == nil {
		return
	}
	for _, m := range pkg.Members {
		if gl, ok := m.(*ssa.Global); ok {
			e.makeGlobal(gl)
		}
	}
	if skipInit[pkg.Pkg.Path()] {
		if pkg.Pkg.Path() == "time" {
			// the two package-level pointers the parser and formatter need
			for name, target := range map[string]string{"UTC": "utcLoc", "Local": "localLoc"} {
				gp, _ := pkg.Members[name].(*ssa.Global)
				gt, _ := pkg.Members[target].(*ssa.Global)
				if gp != nil && gt != nil {
					o := e.global(gp)
					o.V = &Pointer{O: e.global(gt)}
					o.snap = o.V
				}
			}
		}
		return
	}
	objStart, mapStart := len(e.initObjs), len(e.initMaps)
	for _, m := range pkg.Members {
		if gl, ok := m.(*ssa.Global); ok {
			if o := e.globals[gl]; o != nil && o.V != o.snap {
				_ = o
			}
		}
	}
	savedInit := e.inInit
	savedCur := e.cur
	savedSteps := e.steps
	e.inInit = true
	g := &G{id: -1, name: "init:" + pkg.Pkg.Path()}
	e.cur = g
	savedTarget := e.initTarget
	e.initTarget = initFn
	e.callSync(g, initFn, nil)
	e.initTarget = savedTarget
	e.cur = savedCur
	e.inInit = savedInit
	e.steps = savedSteps
	if !savedInit {
		// outermost initialisation finished: snapshot what it created (and the
		// package's own globals, which it assigned)
		for _, o := range e.initObjs[objStart:] {
			o.snap = o.V
		}
		for _, m := range e.initMaps[mapStart:] {
			m.snap = append([]mapEntry(nil), m.Entries...)
		}
		for _, mem := range pkg.Members {
			if gl, ok := mem.(*ssa.Global); ok {
				if o := e.globals[gl]; o != nil {
					o.snap = o.V
				}
			}
		}
	}
}

// packages whose init is not executed (their globals read as zero values);
// anything that needs them must be stubbed.
var skipInit = map[string]bool{
	"runtime": true, "os": true, "syscall": true, "net": false, "time": false,
	"reflect": true, "internal/poll": true, "internal/godebug": true,
	"crypto/sha1": true, "crypto": true, "log": true, "fmt": true,
	"net/http": true, "math/rand": true, "math/rand/v2": true, "crypto/rand": true,
	"internal/cpu": true, "sync": true, "testing": true,
	"github.com/rcrowley/go-metrics": true, "go.etcd.io/bbolt": true,
	"github.com/cenkalti/log": true,
	"github.com/cenkalti/rain/v2/internal/logger": true,
	// init enumerates the machine's network interfaces (netlink syscalls): no external IPs known
	"github.com/cenkalti/rain/v2/internal/externalip": true,
	// package unique itself is stubbed (engine-side interning table)
	"unique": true,
	"github.com/nictuku/dht": true,
}

// ---- memory ----

func (e *Engine) loadPath(v Value, path []int) Value {
	for _, i := range path {
		switch c := v.(type) {
		case *Struct:
			v = c.F[i]
		case *Array:
			if i < len(c.E) {
				v = c.E[i]
			} else {
				if c.Z == nil {
					e.unsupported("array index %d out of materialised range %d", i, len(c.E))
				}
				v = c.Z
			}
		case *Bytes:
			v = Select(c.A, I64C(int64(i)))
		default:
			e.unsupported("loadPath through %T", v)
		}
	}
	return v
}

func (e *Engine) storePath(v Value, path []int, nv Value) Value {
	if len(path) == 0 {
		return nv
	}
	i := path[0]
	switch c := v.(type) {
	case *Struct:
		nf := make([]Value, len(c.F))
		copy(nf, c.F)
		nf[i] = e.storePath(c.F[i], path[1:], nv)
		return &Struct{nf}
	case *Array:
		n := len(c.E)
		if i >= n {
			if c.Z == nil {
				e.unsupported("array store index %d out of range %d", i, n)
			}
			n = i + 1
		}
		ne := make([]Value, n)
		copy(ne, c.E)
		for k := len(c.E); k < n; k++ {
			ne[k] = c.Z
		}
		ne[i] = e.storePath(ne[i], path[1:], nv)
		return &Array{E: ne, Z: c.Z}
	case *Bytes:
		return &Bytes{A: Store(c.A, I64C(int64(i)), nv.(*Term)), N: c.N}
	}
	e.unsupported("storePath through %T", v)
	return nil
}

func (e *Engine) load(p *Pointer) Value {
	if p.IsNil() {
		e.goPanic("runtime error: invalid memory address or nil pointer dereference")
	}
	v := e.loadPath(p.O.V, p.Path)
	if p.Sym != nil {
		b, ok := v.(*Bytes)
		if !ok {
			e.unsupported("symbolic index into %T", v)
		}
		return Select(b.A, p.Sym)
	}
	return v
}

func (e *Engine) store(p *Pointer, nv Value) {
	if p.IsNil() {
		e.goPanic("runtime error: invalid memory address or nil pointer dereference")
	}
	if p.Sym != nil {
		b, ok := e.loadPath(p.O.V, p.Path).(*Bytes)
		if !ok {
			e.unsupported("symbolic store into non-bytes")
		}
		nb := &Bytes{A: Store(b.A, p.Sym, nv.(*Term)), N: b.N}
		p.O.V = e.storePath(p.O.V, p.Path, nb)
		return
	}
	p.O.V = e.storePath(p.O.V, p.Path, nv)
}

func extendPath(p []int, i int) []int {
	np := make([]int, len(p)+1)
	copy(np, p)
	np[len(p)] = i
	return np
}

// ---- panics ----

// goPanic starts a Go-level panic with a runtime error message.
func (e *Engine) goPanic(msg string) {
	g := e.cur
	e.lastStack = e.stack()
	if len(e.lastStack) > 0 {
		// shown with counterexamples: a panic that the code recovers from is otherwise invisible
		e.ghostLog = append(e.ghostLog, "panic: "+msg+" at "+e.lastStack[0])
	}
	g.panicking = &PanicV{V: &Iface{T: types.Typ[types.String], V: ConcStr(msg)}, Msg: msg}
	panic(goPanicSignal{})
}

type goPanicSignal struct{}

// unwindStep performs one step of panic unwinding on g.
func (e *Engine) unwindStep(g *G) {
	if len(g.frames) == 0 {
		e.end("gopanic", g.panicking.Msg)
	}
	f := e.top(g)
	if f.isSync {
		e.end("gopanic", g.panicking.Msg+" (inside synchronous callback)")
	}
	if len(f.defers) > 0 {
		d := f.defers[len(f.defers)-1]
		f.defers = f.defers[:len(f.defers)-1]
		p := g.panicking
		g.panicking = nil // deferred call runs normally; re-raised afterwards unless recovered
		depth := len(g.frames)
		done := e.doCall(g, d.fn, d.args, nil, nil)
		if !done {
			nf := e.top(g)
			nf.isDefer = true
			nf.owner = f
			nf.panicV = p
		} else {
			_ = depth
			g.panicking = p
		}
		return
	}
	// no more defers in this frame
	if f.recovered {
		// return normally to the caller with current named results
		e.returnFromRecovered(g, f)
		return
	}
	g.frames = g.frames[:len(g.frames)-1]
	if len(g.frames) == 0 {
		e.end("gopanic", g.panicking.Msg)
	}
}

func (e *Engine) returnFromRecovered(g *G, f *Frame) {
	g.panicking = nil
	if f.fn.Recover != nil {
		f.recovered = false
		f.prev = f.block
		f.block = f.fn.Recover
		f.pc = 0
		return
	}
	// no named results: return zero values
	var res Value
	rs := f.fn.Signature.Results()
	switch rs.Len() {
	case 0:
	case 1:
		res = zero(rs.At(0).Type())
	default:
		res = zero(rs)
	}
	e.popFrame(g, res)
}

func (e *Engine) popFrame(g *G, res Value) {
	f := e.top(g)
	g.frames = g.frames[:len(g.frames)-1]
	g.lastRet = res
	if f.isDefer && f.panicV != nil {
		// deferred call during panicking finished
		if f.owner.recovered {
			// panic was recovered: owner returns normally once its remaining defers ran
			g.panicking = &PanicV{Msg: "recovered"}
			// run remaining defers then return: emulate by marking and letting unwindStep handle
			return
		}
		g.panicking = f.panicV
		return
	}
	if len(g.frames) == 0 {
		g.done = true
		return
	}
	if f.retTo != nil && !f.isSync {
		caller := e.top(g)
		caller.regs[f.retTo] = res
	}
}
