#!/usr/bin/env python3
"""Writes /verif/MANIFEST.json from checks/*.json and the tables below."""
import json, os, glob
V = os.path.dirname(os.path.dirname(os.path.abspath(__file__)))
ids = [json.loads(l)["id"] for l in open(os.path.join(V, "properties.jsonl"))]

LEVEL = {
 "C01": ("bounded symbolic model checking of the real piece downloader against an adversarial peer (stored iff valid new block, Done iff all blocks, buffer == accepted data), of the write path (section writes land exactly, a failed section write is reported), of the write -> mark-done -> persist order over every crash prefix, and of the rule that a peer whose piece fails the hash check is disconnected, banned and never dialled again (event sequences on the real torrent handlers); whole-download file identity is argued from these steps, not run end to end", "4 C01, 10.3"),
 "C02": ("bounded symbolic model checking of NewPieces, calculateBlocks (real code from SSA) against an arithmetical tiling oracle with a symbolic witness offset; all lengths symbolic (32/64-bit), structure bounded (<=3 files/sections, <=3 pieces/<=4 blocks)", "4 C02"),
 "C03": ("bounded symbolic model checking of the real request handler on a real torrent value (all 32-bit request triples x choking / fast extension / both allowed-fast sets / piece present / short last piece) and of the cached piece reader (symbolic section layout, file offsets, content, request position and length) against the piece's flat content", "4 C03"),
 "C06": ("bounded symbolic model checking of NewInfo's validation and of Session.parseInfo's limits with the bencode decoder replaced by an arbitrary decoded value; termination of piece construction as an unwinding assertion; the decoder itself, .torrent size limiting and magnet text parsing are outside the claim", "4 C06"),
 "C10": ("bounded symbolic model checking of (a) honest-source piece assembly for every layout in the bound (completes in #blocks+1 rounds with the true bytes) and (b) no starvation in the real picker driven through the real handlers from rich states (an idle unchoked peer holding a needed piece that nobody downloads - or, in end game, below the duplicate limit - gets a request). Whole-download completion is argued from (a)+(b) plus C02 geometry, not run end to end; web-seed-only and encrypted transfers are outside the claim", "4 C10, 10.3"),
 "C13": ("bounded symbolic model checking of metadata block accounting against an adversarial peer, of the size cap on the announced metadata size (arbitrary 64-bit value), and of the adoption step on a real magnet torrent with two peers (all 4-message sequences; SHA-1 as an uninterpreted function so both hash outcomes are explored for any content): adopted only if the hash matches, never modified afterwards, no download left registered. Eventual success with an honest peer and the magnet text round trip are outside the claim", "4 C13, 10.3"),
 "C16": ("one inductive step of Tier.Announce from every reachable stored index (tier size 1..4); bounded symbolic model checking of the real shared UDP transport (Run, readLoop, Do, connect/retry goroutines) with two announcing torrents against an arbitrary tracker, goroutines scheduled cooperatively with one forking scheduling point per path; of the announcer's retry after every kind of failed announce incl. foreign cancellations; of UDP reply and compact peer parsing for arbitrary bytes. HTTP tracker reply parsing (bencode) is outside the claim", "4 C16, 10.3"),
 "C18": ("bounded symbolic model checking of the segment tree (build+query) against the union-of-ranges definition for arbitrary 32-bit endpoints; of the real blocklist loader on a concrete list; of AddrList admission filters for an arbitrary address and of AddrList as a bounded priority set (real btree, arbitrary priorities, all 4-operation sequences); of dial / accept admission on the real torrent handlers (blocked, banned, connected, own address, port 0) over all 4-event sequences. Announce-to-blocked-tracker (resolver) is outside the claim", "4 C18, 10.3"),
 "C15": ("bounded symbolic model checking of the UDP announce packet construction against the BEP 15 byte layout written independently (all field values symbolic), and of the real PeriodicalAnnouncer loop with its announce goroutines against a tracker with arbitrary replies (any interval / min-interval incl. zero and negative, failures, aborts), completion before / between / during announces: event discipline, HasAnnounced, re-announce spacing. HTTP request encoding and the stop announcer's tracker selection in torrent.stop are outside the claim", "4 C15, 10.3"),
 "C08": ("bounded symbolic model checking of the input-validation units a peer's bytes reach first (bitfield construction, metadata block accounting, compact address decoding): arbitrary bytes/fields within the stated sizes never panic and are rejected or consistent. The stream reader and the message handlers are not covered yet.", "4 C08"),
 "C07": ("bounded symbolic model checking of the real NewInfo -> FileStorage.Open path computation and of readData with symbolic ASCII strings (real strings/path/filepath code executed from SSA); every path that would be created/opened is captured by recorders and checked against the data directory", "4 C07"),
 "C11": ("bounded symbolic model checking of the real writer and reader goroutines (cooperative scheduling, select forks) against BEP byte layouts written independently, and of the writer->reader round trip under symbolic fragmentation", "4 C11"),
 "C05": ("bounded symbolic model checking of the write -> set-bit -> persist order on the real torrent handlers and the real piece writer with the crash instant ranging over every prefix of the recorded effect log; of the resume-trust decision at allocation time; and of the O_SYNC open flags. bbolt's own atomicity and the periodic stats goroutine are outside the claim.", "4 C05"),
 "C04": ("bounded symbolic model checking of the real torrent lifecycle handlers: all event sequences up to the stated length from a freshly constructed torrent (real newTorrent) with symbolic worker results, a written lifecycle invariant after every event, stop / error must end Stopped; connection bookkeeping across stop and completion; stop-after-download is one-shot. The wall-clock clause (stop within the tracker timeout) and restart-converges are outside the claim", "4 C04, 10.3"),
 "C17": ("bounded symbolic model checking of the write-cache reservation manager (real goroutines, select forking): request/cancel/release never strand the caller and reservations balance; of the accept-side and dial-side connection caps and connected-IP bookkeeping (event sequences on the real handlers); of the per-peer queued-upload-request cap (real writer loop on a slow connection); of the web-seed source and concurrent-download caps. Rate limits, read-cache size and outstanding-request caps are outside the claim", "4 C17, 10.3"),
 "C12": ("bounded symbolic model checking of the MSE synchronisation scan (symbolic padding, scan limit, fragmentation), of the two-party handshake (both real endpoints as cooperating goroutines, cryptographic primitives replaced by their algebraic contract) and of the acceptor's encryption policy (real btconn.Accept against cleartext and MSE dialers, force on/off). The dialer's retry-in-cleartext policy (btconn.Dial, real sockets) and cryptographic strength are outside the claim", "4 C12, 10.3"),
 "C19": ("bounded symbolic model checking of every site where a private torrent could start DHT/PEX activity or accept an address (real handlers on a real torrent value; all configuration combinations; arbitrary PEX/DHT addresses; any non-zero private flag value), of the private identity strings, of magnet export refusal, and of the refusal of private metadata fetched through a magnet link (not kept)", "4 C19, 10.3"),
 "C09": ("bounded symbolic model checking of the real piece picker driven through the real torrent message handlers: all peer-event sequences up to the stated length from a fresh downloading torrent and from rich states, and all event sequences with two web-seed sources and a peer (web-seed results as events), checking every request sent, the download table, web-seed range disjointness and bookkeeping against the clauses of the property", "4 C09, 10.3"),
 "C14": ("bounded symbolic model checking of the session registry code (real Session.AddTorrent/RemoveTorrent/add/getPort/releasePort/insertTorrent) over all 3-operation sequences with injected failures (port and registry conservation, registry == resume records); of the resume record round trip through the real boltdbresumer Write/Read/field updates over a key/value contract of bbolt (counters at every power-of-two boundary); and of CompactDatabase on a torrent in an arbitrary resting state. Session start-up loading (restart equivalence) is outside the claim", "4 C14, 10.3"),
}
NOTE = "trusted base: go/packages+go/ssa (x/tools v0.50.0) reading of the source, the engine's instruction semantics (validated by native replay of sampled paths and of every counterexample), z3 4.8.12 / z3 5.1.0 / cvc5 1.0.3; named stubs listed in the evidence file; bounds as stated per harness in the evidence; anything beyond the bounds is outside the claim"

checks = []
claimed = set()
for f in sorted(glob.glob(os.path.join(V, "checks", "C*.json"))):
    spec = json.load(open(f))
    pid = spec["property"]
    if pid not in LEVEL:
        continue
    claimed.add(pid)
    text, ref = LEVEL[pid]
    c = {"property_id": pid, "quick_cmd": "bin/check %s quick" % pid, "evidence_file": "evidence/%s.json" % pid,
         "replay_cmd_template": "bin/check %s --replay {path}" % pid, "engine": "gosym",
         "level_claimed": {"category": "model_checking", "text": text, "design_ref": "DESIGN.md §" + ref},
         "level_note": NOTE,
         "technique": "bounded symbolic execution of the real Go code from go/ssa, SMT (z3/cvc5) decides every branch and assertion; counterexamples replayed natively"}
    if any("thorough" in h for h in spec["harnesses"]):
        c["thorough_cmd"] = "bin/check %s thorough" % pid
    checks.append(c)

NA = {
 "C20": "quantifier is over preemptive interleavings under the Go memory model; the engine runs cooperative schedules and has no happens-before relation, so solver-based checking of the real code cannot decide data-race freedom here (DESIGN.md §6)",
}
na = []
for i in ids:
    if i not in claimed:
        na.append({"property_id": i, "reason": NA.get(i, "check not built yet (work in progress; see DESIGN.md §4 for the planned harnesses)")})

m = {"version": 1,
 "setup_cmd": "bin/setup",
 "hooks": {"guard": "none (harnesses are injected by go/packages overlay and `go test -overlay`; /repo is not instrumented)", "enable": "n/a: overlay files from /verif/harness", "baseline_off_cmd": "cd /repo && go test -vet=off -count=1 -timeout 25m ./...", "source_commits": [], "add_only": True},
 "engines": [{"name": "gosym", "path": "engine/", "serves_properties": sorted(claimed), "kind_free_text": "forking symbolic interpreter over go/ssa; SMT-LIB2 to z3 (incremental) with a z3/z3-5.1/cvc5 portfolio for hard queries; native replay of counterexamples via go test -overlay"}],
 "checks": checks,
 "not_applicable": na,
 "notes": "fix: commits in /repo (genuine defects found by the checks) are listed in KNOWN_FINDINGS.json under 'fixed'."}
json.dump(m, open(os.path.join(V, "MANIFEST.json"), "w"), indent=1)
print("claimed", sorted(claimed))
