#!/usr/bin/env python3
"""Writes /verif/MANIFEST.json from checks/*.json and the tables below."""
import json, os, glob
V = os.path.dirname(os.path.dirname(os.path.abspath(__file__)))
ids = [json.loads(l)["id"] for l in open(os.path.join(V, "properties.jsonl"))]

LEVEL = {
 "C01": ("bounded symbolic model checking of the real piecedownloader (go/ssa executed over SMT terms): for every piece layout within the bound and every adversarial message sequence of the stated length, block data is stored iff it is a valid, new block; completion iff all blocks arrived; completed buffer equals the accepted data with padding zero. Paths are explored exhaustively within the bounds; each assertion is an unsat SMT query.", "4 C01"),
 "C02": ("bounded symbolic model checking of NewPieces, calculateBlocks (real code from SSA) against an arithmetical tiling oracle with a symbolic witness offset; all lengths symbolic (32/64-bit), structure bounded (<=3 files/sections, <=3 pieces/<=4 blocks)", "4 C02"),
 "C03": ("bounded symbolic model checking of the request bounds check (all 32-bit triples) and of the cached piece reader (symbolic section layout, file offsets and content, request position and length) against the piece's flat content", "4 C03"),
 "C06": ("bounded symbolic model checking of NewInfo's validation with the decoder replaced by an arbitrary decoded value; termination of piece construction as an unwinding assertion", "4 C06"),
 "C10": ("bounded symbolic model checking of the honest-source piece assembly for every layout in the bound (safety part: completes in #blocks+1 rounds with the true bytes); end-to-end liveness is outside the claim", "4 C10"),
 "C13": ("bounded symbolic model checking of metadata block accounting against an adversarial peer (3 steps, <=3 blocks)", "4 C13"),
 "C16": ("one inductive step of Tier.Announce from every reachable stored index (symbolic), tier size 1..4", "4 C16"),
 "C18": ("bounded symbolic model checking of the segment tree (build+query) against the union-of-ranges definition for arbitrary 32-bit endpoints", "4 C18"),
 "C15": ("bounded symbolic model checking of the UDP announce packet construction against the BEP 15 byte layout written independently (all field values symbolic)", "4 C15"),
 "C08": ("bounded symbolic model checking of the input-validation units a peer's bytes reach first (bitfield construction, metadata block accounting, compact address decoding): arbitrary bytes/fields within the stated sizes never panic and are rejected or consistent. The stream reader and the message handlers are not covered yet.", "4 C08"),
 "C07": ("bounded symbolic model checking of the real NewInfo -> FileStorage.Open path computation and of readData with symbolic ASCII strings (real strings/path/filepath code executed from SSA); every path that would be created/opened is captured by recorders and checked against the data directory", "4 C07"),
 "C11": ("bounded symbolic model checking of the real writer and reader goroutines (cooperative scheduling, select forks) against BEP byte layouts written independently, and of the writer->reader round trip under symbolic fragmentation", "4 C11"),
 "C05": ("bounded symbolic model checking of the write -> set-bit -> persist order on the real torrent handlers and the real piece writer with the crash instant ranging over every prefix of the recorded effect log; of the resume-trust decision at allocation time; and of the O_SYNC open flags. bbolt's own atomicity and the periodic stats goroutine are outside the claim.", "4 C05"),
 "C04": ("bounded symbolic model checking of the real torrent lifecycle handlers: all event sequences up to the stated length from a freshly constructed torrent (real newTorrent), with symbolic worker results, checking a written lifecycle invariant after every event", "4 C04"),
 "C17": ("bounded symbolic model checking of the write-cache reservation manager (real goroutines, cooperative scheduling with select forking): request/cancel/release sequences never strand the caller and reservations balance; of the accept-side connection cap incl. failed handshakes (real handshaker); of the web-seed source cap in the constructor. Queue caps per peer are partly covered by C01/C11 harnesses; rate limits and the dial-side cap are not covered.", "4 C17"),
 "C12": ("bounded symbolic model checking of the MSE synchronisation scan (symbolic padding, scan limit, fragmentation) and of the two-party handshake (both real endpoints as cooperating goroutines, cryptographic primitives replaced by their algebraic contracts): agreement on one offered cipher or failure on both sides, payload integrity in both directions, wrong key never completes. The forced-encryption policy matrix (btconn.Accept/Dial) is not covered.", "4 C12"),
 "C19": ("bounded symbolic model checking of every site where a private torrent could start DHT/PEX activity or accept an address (real handlers on a real torrent value; all configuration combinations; arbitrary PEX/DHT addresses)", "4 C19"),
 "C09": ("bounded symbolic model checking of the real piece picker driven through the real torrent message handlers: all peer-event sequences up to the stated length from a fresh downloading torrent, checking every request sent and the download table against the property's statements. Web-seed range assignment is not covered.", "4 C09"),
 "C14": ("bounded symbolic model checking of the session registry code (real Session.AddTorrent/RemoveTorrent/add/getPort/releasePort/insertTorrent) over all 3-operation sequences with injected failures: port and registry conservation and registry == resume records. Restart equivalence and value round trips through bbolt are not covered.", "4 C14"),
}
NOTE = "trusted base: go/packages+go/ssa (x/tools v0.50.0) reading of the source, the engine's instruction semantics (validated by native replay of sampled paths and of every counterexample), z3 4.8.12 / z3 5.1.0 / cvc5 1.0.3; named stubs listed in the evidence file; bounds as stated per harness in the evidence; anything beyond the bounds is outside the claim"

checks = []
claimed = set()
for f in sorted(glob.glob(os.path.join(V, "checks", "C*.json"))):
    spec = json.load(open(f))
    pid = spec["property"]
    if pid not in LEVEL:
        continue
    claimed.add(pid)
    text, ref = LEVEL[pid]
    c = {"property_id": pid, "quick_cmd": "bin/check %s quick" % pid, "evidence_file": "evidence/%s.json" % pid,
         "replay_cmd_template": "bin/check %s --replay {path}" % pid, "engine": "gosym",
         "level_claimed": {"category": "model_checking", "text": text, "design_ref": "DESIGN.md §" + ref},
         "level_note": NOTE,
         "technique": "bounded symbolic execution of the real Go code from go/ssa, SMT (z3/cvc5) decides every branch and assertion; counterexamples replayed natively"}
    if any("thorough" in h for h in spec["harnesses"]):
        c["thorough_cmd"] = "bin/check %s thorough" % pid
    checks.append(c)

NA = {
 "C20": "quantifier is over preemptive interleavings under the Go memory model; the engine runs cooperative schedules and has no happens-before relation, so solver-based checking of the real code cannot decide data-race freedom here (DESIGN.md §6)",
}
na = []
for i in ids:
    if i not in claimed:
        na.append({"property_id": i, "reason": NA.get(i, "check not built yet (work in progress; see DESIGN.md §4 for the planned harnesses)")})

m = {"version": 1,
 "setup_cmd": "bin/setup",
 "hooks": {"guard": "none (harnesses are injected by go/packages overlay and `go test -overlay`; /repo is not instrumented)", "enable": "n/a: overlay files from /verif/harness", "baseline_off_cmd": "cd /repo && go test -vet=off -count=1 -timeout 25m ./...", "source_commits": [], "add_only": True},
 "engines": [{"name": "gosym", "path": "engine/", "serves_properties": sorted(claimed), "kind_free_text": "forking symbolic interpreter over go/ssa; SMT-LIB2 to z3 (incremental) with a z3/z3-5.1/cvc5 portfolio for hard queries; native replay of counterexamples via go test -overlay"}],
 "checks": checks,
 "not_applicable": na,
 "notes": "fix: commits in /repo (genuine defects found by the checks) are listed in KNOWN_FINDINGS.json under 'fixed'."}
json.dump(m, open(os.path.join(V, "MANIFEST.json"), "w"), indent=1)
print("claimed", sorted(claimed))
