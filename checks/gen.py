#!/usr/bin/env python3
"""Generates checks/Cxx.json from the table below (kept in one place so bounds are easy to review)."""
import json, os
D = os.path.dirname(os.path.abspath(__file__))

def H(fn, pkg, what, quick=None, thorough=None, replay="native", flags=None):
    h = {"fn": fn, "pkg": pkg, "what": what, "replay": replay}
    if quick: h["quick"] = quick
    if thorough: h["thorough"] = thorough
    if flags: h["flags"] = flags
    return h

def T(unwind=20, timeout_s=900, shards=1, splitk=6, **kw):
    d = {"unwind": unwind, "timeout_s": timeout_s, "shards": shards, "splitk": splitk}
    d.update(kw)
    return d

C = {}
C["C02"] = dict(assumptions=["storage files replaced by in-memory recorders (vrt.MemFile)", "bencode decoder replaced by 'any decoded value' (natively the value is really bencoded)"], harnesses=[
    H("ZZBlocksTileReal", "internal/piece", "CalculateBlocks (16 KiB blocks) tiles exactly the non-padding bytes: <=3 sections, piece <= 64 KiB, all lengths/padding flags symbolic",
      T(40, 900, 8, 6), T(40, 2400, 16, 7)),
    H("ZZNewPiecesTileSmall", "internal/piece", "NewPieces maps pieces onto files exactly once for every info NewInfo accepts: <=2 files, <=2 pieces, all lengths symbolic 64-bit",
      T(12, 900, 4, 4), None),
    H("ZZNewPiecesTile", "internal/piece", "same with <=3 files, <=3 pieces", None, T(12, 3000, 16, 7)),
])
C["C06"] = dict(assumptions=["bencode decoder replaced by 'any decoded value' with <=3 files, <=3 piece hashes or a piece string of bad length; strings concrete"], harnesses=[
    H("ZZNewInfoWellFormed", "internal/metainfo", "NewInfo rejects or returns a well-formed description (positive piece length, >=1 piece, non-negative lengths, exact non-wrapping sum, consistent piece count)",
      T(10, 900, 4, 4), T(10, 1800, 8, 5)),
    H("ZZNewPiecesTileSmall", "internal/piece", "piece construction terminates without panic for every accepted info (<=2 files, <=2 pieces): hitting the unwinding bound is a violation",
      T(12, 900, 4, 4, flags=["-unwindbug"]), None),
    H("ZZNewPiecesTile", "internal/piece", "same, <=3 files, <=3 pieces", None, T(12, 3000, 16, 7, flags=["-unwindbug"])),
])
C["C03"] = dict(assumptions=["read cache replaced by its contract: Get(key, loader) returns what loader returns", "storage replaced by in-memory files with symbolic content"], harnesses=[
    H("ZZValidPieceRequest", "torrent", "request bounds check == (length != 0 and begin+length <= pieceLength over the integers), all 32-bit values", T(4, 300), T(4, 300)),
    H("ZZCachedRead16K1", "internal/cachedpiece", "cached ReadAt returns exactly the requested bytes: read size 16 KiB (requests cross cache blocks), one section (data or padding) with symbolic length/offset/content, piece <= 64 KiB, request 1..16384 bytes anywhere", T(40, 900), None),
    H("ZZCachedRead128K", "internal/cachedpiece", "read size 128 KiB (default), <=2 sections (data/padding), piece <= 64 KiB", None, T(40, 1800, 4, 4)),
    H("ZZCachedRead16K", "internal/cachedpiece", "read size 16 KiB, <=2 sections", None, T(40, 3000, 8, 5)),
    H("ZZCachedReadOdd", "internal/cachedpiece", "same, read size 16385", None, T(40, 3000, 8, 5)),
])
C["C16"] = dict(assumptions=["member trackers are stubs that fail or succeed arbitrarily", "atomic operations executed as plain operations (one goroutine)"], harnesses=[
    H("ZZTierStep", "internal/tracker", "one Announce from any reachable tier state (size 1..4, stored index in [0,n]): current member contacted, failure advances cyclically, success keeps; inductive", T(20, 300), T(20, 300)),
])
C["C18"] = dict(assumptions=[], harnesses=[
    H("ZZStreeExact2", "internal/blocklist/stree", "segment tree build+query == union of ranges, <=2 ranges with arbitrary 32-bit endpoints, arbitrary query", T(30, 600), T(30, 600)),
    H("ZZStreeEmpty", "internal/blocklist/stree", "empty tree blocks nothing; Clear+rebuild forgets the previous list", T(30, 300), T(30, 300)),
    H("ZZStreeExact3", "internal/blocklist/stree", "<=3 ranges", None, T(40, 3000, 16, 7)),
])
C["C13"] = dict(assumptions=["peer replaced by a recorder"], harnesses=[
    H("ZZInfoBlocks", "internal/infodownloader", "metadata block accounting: size <= 3 blocks, 3 adversarial steps (request rounds / pieces with arbitrary index and length)", T(20, 900, 4, 5), T(20, 1800, 8, 6)),
])
C["C01"] = dict(assumptions=["peer replaced by a recorder", "buffer pool is the real bufferpool (sync.Pool modelled as always-new)"], harnesses=[
    H("ZZAdversaryQuick", "internal/piecedownloader", "piece downloader vs adversarial peer: <=2 sections, piece <= 32 KiB, 2 steps of request/choke/reject/arbitrary block; data stored iff valid new block, Done iff all blocks, completed buffer = accepted data, padding zero", T(20, 1800, 8, 6), None),
    H("ZZAdversary3", "internal/piecedownloader", "same with 3 steps", None, T(20, 3000, 16, 7)),
])
C["C10"] = dict(assumptions=["honest peer stub answers each request with exactly the requested bytes of the true piece"], harnesses=[
    H("ZZHonestPieceQuick", "internal/piecedownloader", "honest source: every piece layout (<=2 sections, <=32 KiB) completes within #blocks+1 rounds with the true bytes", T(20, 600), None),
    H("ZZHonestPiece", "internal/piecedownloader", "<=3 sections, <=64 KiB", None, T(20, 1800, 8, 6)),
])

C["C16"]["harnesses"] += [
    H("ZZDecodePeersCompact", "internal/tracker", "compact peer list: any bytes (len <= 19) give an error or exactly len/6 well-formed addresses", T(30, 600), T(30, 600)),
    H("ZZUDPParseAnnounce", "internal/tracker/udptracker", "UDP announce reply: any bytes (len <= 38) give an error or header fields + well-formed peers; no panic, no read past the data", T(45, 600), T(45, 600)),
]
C["C16"]["assumptions"] += ["encoding/binary.Read/Write modelled per type (fixed-size big-endian layout) in the engine"]
C["C15"] = dict(assumptions=["encoding/binary.Write modelled per type (fixed-size big-endian layout) in the engine; natively the real encoding/binary runs"], harnesses=[
    H("ZZUDPAnnouncePacket", "internal/tracker/udptracker", "UDP announce datagram == BEP 15 layout for arbitrary info-hash, peer id (all 20 bytes), counters, event, num-want, port, connection/transaction id, url-data <= 4 bytes", T(45, 600, 4, 4), T(45, 900, 4, 4)),
])
C["C08"] = dict(assumptions=["peer replaced by a recorder"], harnesses=[
    H("ZZNewBytes", "internal/bitfield", "peer bitfield: any bytes (<= 5) and any 32-bit bit count: rejected or consistent (size rule, spare bits cleared, Test == raw bit, Set/Clear local); no panic", T(45, 600), T(45, 600)),
    H("ZZAllCount", "internal/bitfield", "Count/All exact for bitfields of <= 12 bits", T(45, 600), T(45, 600)),
    H("ZZInfoBlocks", "internal/infodownloader", "metadata pieces with arbitrary index/size never panic or write outside the buffer (3 steps, <= 3 blocks)", T(20, 900, 4, 5), None),
    H("ZZDecodePeersCompact", "internal/tracker", "compact peers from PEX/trackers: any bytes (len <= 19): error or well-formed", T(30, 600), T(30, 600)),
])

for pid, spec in C.items():
    spec = dict(property=pid, **spec)
    json.dump(spec, open(os.path.join(D, pid + ".json"), "w"), indent=1)
print("wrote", sorted(C))
