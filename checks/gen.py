#!/usr/bin/env python3
"""Generates checks/Cxx.json from the table below (kept in one place so bounds are easy to review)."""
import json, os
D = os.path.dirname(os.path.abspath(__file__))

def H(fn, pkg, what, quick=None, thorough=None, replay="native", flags=None):
    h = {"fn": fn, "pkg": pkg, "what": what, "replay": replay}
    if quick: h["quick"] = quick
    if thorough: h["thorough"] = thorough
    if flags: h["flags"] = flags
    return h

def T(unwind=20, timeout_s=900, shards=1, splitk=6, **kw):
    d = {"unwind": unwind, "timeout_s": timeout_s, "shards": shards, "splitk": splitk}
    d.update(kw)
    return d

C = {}
C["C02"] = dict(assumptions=["storage files replaced by in-memory recorders (vrt.MemFile)", "bencode decoder replaced by 'any decoded value' (natively the value is really bencoded)"], harnesses=[
    H("ZZBlocksTileReal", "internal/piece", "CalculateBlocks (16 KiB blocks) tiles exactly the non-padding bytes: <=3 sections, piece <= 64 KiB, all lengths/padding flags symbolic",
      T(40, 900, 8, 6), T(40, 2400, 16, 7)),
    H("ZZNewPiecesTileSmall", "internal/piece", "NewPieces maps pieces onto files exactly once for every info NewInfo accepts: <=2 files, <=2 pieces, all lengths symbolic 64-bit",
      T(12, 900, 4, 4), None),
    H("ZZNewPiecesTile", "internal/piece", "same with <=3 files, <=3 pieces", None, T(12, 3000, 16, 7)),
])
C["C06"] = dict(assumptions=["bencode decoder replaced by 'any decoded value' with <=3 files, <=3 piece hashes or a piece string of bad length; strings concrete"], harnesses=[
    H("ZZNewInfoWellFormed", "internal/metainfo", "NewInfo rejects or returns a well-formed description (positive piece length, >=1 piece, non-negative lengths, exact non-wrapping sum, consistent piece count)",
      T(10, 900, 4, 4), T(10, 1800, 8, 5)),
    H("ZZNewPiecesTileSmall", "internal/piece", "piece construction terminates without panic for every accepted info (<=2 files, <=2 pieces): hitting the unwinding bound is a violation",
      T(12, 900, 4, 4, flags=["-unwindbug"]), None),
    H("ZZNewPiecesTile", "internal/piece", "same, <=3 files, <=3 pieces", None, T(12, 3000, 16, 7, flags=["-unwindbug"])),
])
C["C03"] = dict(assumptions=["read cache replaced by its contract: Get(key, loader) returns what loader returns", "storage replaced by in-memory files with symbolic content"], harnesses=[
    H("ZZValidPieceRequest", "torrent", "request bounds check == (length != 0 and begin+length <= pieceLength over the integers), all 32-bit values", T(4, 300), T(4, 300)),
    H("ZZCachedRead16K1", "internal/cachedpiece", "cached ReadAt returns exactly the requested bytes: read size 16 KiB (requests cross cache blocks), one section (data or padding) with symbolic length/offset/content, piece <= 64 KiB, request 1..16384 bytes anywhere", T(40, 900), None),
    H("ZZCachedRead128K", "internal/cachedpiece", "read size 128 KiB (default), <=2 sections (data/padding), piece <= 64 KiB", None, T(40, 1800, 4, 4)),
    H("ZZCachedRead16K", "internal/cachedpiece", "read size 16 KiB, <=2 sections", None, T(40, 3000, 8, 5)),
    H("ZZCachedReadOdd", "internal/cachedpiece", "same, read size 16385", None, T(40, 3000, 8, 5)),
])
C["C16"] = dict(assumptions=["member trackers are stubs that fail or succeed arbitrarily", "atomic operations executed as plain operations (one goroutine)"], harnesses=[
    H("ZZTierStep", "internal/tracker", "one Announce from any reachable tier state (size 1..4, stored index in [0,n]): current member contacted, failure advances cyclically, success keeps; inductive", T(20, 300), T(20, 300)),
])
C["C18"] = dict(assumptions=[], harnesses=[
    H("ZZStreeExact2", "internal/blocklist/stree", "segment tree build+query == union of ranges, <=2 ranges with arbitrary 32-bit endpoints, arbitrary query", T(30, 600), T(30, 600)),
    H("ZZStreeEmpty", "internal/blocklist/stree", "empty tree blocks nothing; Clear+rebuild forgets the previous list", T(30, 300), T(30, 300)),
    H("ZZStreeExact3", "internal/blocklist/stree", "<=3 ranges", None, T(40, 3000, 16, 7)),
])
C["C13"] = dict(assumptions=["peer replaced by a recorder"], harnesses=[
    H("ZZInfoBlocks", "internal/infodownloader", "metadata block accounting: size <= 3 blocks, 3 adversarial steps (request rounds / pieces with arbitrary index and length)", T(20, 900, 4, 5), T(20, 1800, 8, 6)),
])
C["C01"] = dict(assumptions=["peer replaced by a recorder", "buffer pool is the real bufferpool (sync.Pool modelled as always-new)"], harnesses=[
    H("ZZAdversaryQuick", "internal/piecedownloader", "piece downloader vs adversarial peer: <=2 sections, piece <= 32 KiB, 2 steps of request/choke/reject/arbitrary block; data stored iff valid new block, Done iff all blocks, completed buffer = accepted data, padding zero", T(20, 1800, 8, 6), None),
    H("ZZAdversary3", "internal/piecedownloader", "same with 3 steps", None, T(20, 3000, 16, 7)),
])
C["C10"] = dict(assumptions=["honest peer stub answers each request with exactly the requested bytes of the true piece"], harnesses=[
    H("ZZHonestPieceQuick", "internal/piecedownloader", "honest source: every piece layout (<=2 sections, <=32 KiB) completes within #blocks+1 rounds with the true bytes", T(20, 600), None),
    H("ZZHonestPiece", "internal/piecedownloader", "<=3 sections, <=64 KiB", None, T(20, 1800, 8, 6)),
])

C["C16"]["harnesses"] += [
    H("ZZDecodePeersCompact", "internal/tracker", "compact peer list: any bytes (len <= 19) give an error or exactly len/6 well-formed addresses", T(30, 600), T(30, 600)),
    H("ZZUDPParseAnnounce", "internal/tracker/udptracker", "UDP announce reply: any bytes (len <= 38) give an error or header fields + well-formed peers; no panic, no read past the data", T(45, 600), T(45, 600)),
]
C["C16"]["harnesses"] += [
    H("ZZUDPTransport", "internal/tracker/udptracker", "real shared UDP transport (Transport.Run, readLoop, Do, connect and retry goroutines) with two torrents announcing to one tracker; the harness is the tracker: connect answered / refused / a torrent stopped meanwhile, the two announce transactions answered in either order with arbitrary reply bytes (0..1 peers), an arbitrary stray datagram (7/16/26 bytes, any ids), transport closed before the second answer; goroutines scheduled cooperatively with 1 scheduling point per path forking over every runnable goroutine (select with several ready cases always forks): every Announce returns, a successful one returns exactly the content of the first datagram bearing its own transaction id, Close returns and closes the socket", T(40, 1800, 8, 8, flags=["-sched", "1"]), T(40, 3000, 16, 9, flags=["-sched", "1"]), replay="model"),
    H("ZZAnnouncerRetry", "internal/announcer", "real PeriodicalAnnouncer.Run: three announces in a row end without a reply, each arbitrarily as tracker failure, undecodable reply, or an abort the announcer did not ask for (context.Canceled from a connection shared with a stopped torrent): each time the announcer leaves 'contacting', arms a retry within the back-off bounds, and announces again when it fires", T(45, 900), T(45, 900), replay="model"),
]
C["C16"]["assumptions"] += ["encoding/binary.Read/Write modelled per type (fixed-size big-endian layout) in the engine", "UDP transport: socket, resolver, retry ticker (fires once per transaction) and random transaction ids (distinct) replaced; retransmission timing, connection-id expiry and transaction-id collisions outside the claim", "HTTP tracker replies (bencode/reflection) not encoded"]
C["C15"] = dict(assumptions=["encoding/binary.Write modelled per type (fixed-size big-endian layout) in the engine; natively the real encoding/binary runs"], harnesses=[
    H("ZZUDPAnnouncePacket", "internal/tracker/udptracker", "UDP announce datagram == BEP 15 layout for arbitrary info-hash, peer id (all 20 bytes), counters, event, num-want, port, connection/transaction id, url-data <= 4 bytes", T(45, 600, 4, 4), T(45, 3000, 4, 4)),
])
C["C08"] = dict(assumptions=["peer replaced by a recorder"], harnesses=[
    H("ZZNewBytes", "internal/bitfield", "peer bitfield: any bytes (<= 5) and any 32-bit bit count: rejected or consistent (size rule, spare bits cleared, Test == raw bit, Set/Clear local); no panic", T(45, 600), T(45, 600)),
    H("ZZAllCount", "internal/bitfield", "Count/All exact for bitfields of <= 12 bits", T(45, 600), T(45, 600)),
    H("ZZInfoBlocks", "internal/infodownloader", "metadata pieces with arbitrary index/size never panic or write outside the buffer (3 steps, <= 3 blocks)", T(20, 900, 4, 5), None),
    H("ZZDecodePeersCompact", "internal/tracker", "compact peers from PEX/trackers: any bytes (len <= 19): error or well-formed", T(30, 600), T(30, 600)),
])

C["C07"] = dict(assumptions=["bencode decoder replaced by 'any decoded value'", "name and path component bytes are arbitrary ASCII (<0x80) of the stated lengths; invalid UTF-8 / 255-byte trimming not covered", "os.MkdirAll / os.OpenFile replaced by recorders (every path the storage would touch is captured)", "tar parser replaced by 'one header with an arbitrary name'"], harnesses=[
    H("ZZPathsName", "internal/storage/filestorage", "real NewInfo + FileStorage.Open: arbitrary torrent name (<= 2 ASCII bytes), single-file or one file with a <=1-byte component: every path handed to MkdirAll/OpenFile stays under the data directory", T(80, 900), T(80, 900), replay="model"),
    H("ZZPathsComponents", "internal/storage/filestorage", "fixed name, <=2 files with one component of <=2 arbitrary ASCII bytes: confinement, separator replacement, two files never collide", T(80, 900), T(80, 900), replay="model"),
    H("ZZTarConfined", "torrent", "readData: arbitrary tar entry name (<=5 ASCII bytes): nothing created outside the destination directory", T(80, 900), T(80, 900), replay="model"),
    H("ZZPathsConfined2", "internal/storage/filestorage", "name <= 2 bytes, <=2 files x <=2 components x <=2 bytes", None, T(120, 7000, 32, 8), replay="model"),
])
C["C05"] = dict(assumptions=["os.OpenFile replaced by a recorder"], harnesses=[
    H("ZZOpenSync", "internal/storage/filestorage", "every open of a data file carries O_SYNC|O_RDWR on both the existing-file path and the create path (existence of the file symbolic; a missing file is created)", T(20, 300), T(20, 300), replay="model"),
])

C["C11"] = dict(assumptions=["net.Conn replaced by an in-memory connection (vrt.Conn)", "time.Ticker never fires (keep-alive timing outside the claim)", "extension messages (bencoded payload) not covered"], harnesses=[
    H("ZZWriterFrames", "internal/peerconn/peerwriter", "real PeerWriter.Run + messageWriter goroutines: each of 15 fixed-layout message kinds with symbolic fields is written as <len BE32><id><body> per BEP 3/5/6, in one Write", T(45, 600), T(45, 600)),
    H("ZZWriterPiece", "internal/peerconn/peerwriter", "piece message = header + exactly bytes [begin,begin+length) (length 1..16384 symbolic) and upload counter == payload bytes", T(45, 600), T(45, 600)),
    H("ZZRoundTrip", "internal/peerconn/peerwriter", "writer output fed to the real PeerReader.Run under none/one arbitrary split/byte-by-byte fragmentation decodes to the identical message", T(80, 900), T(80, 900)),
    H("ZZHandshakeLayout", "internal/btconn", "handshake = 0x13 'BitTorrent protocol' + 8 reserved + info-hash + peer id (all symbolic), reads back under fragmentation", T(80, 600), T(80, 600)),
    H("ZZHandshakeRejectsOtherProtocol", "internal/btconn", "any other first 20 bytes are refused", T(40, 300), T(40, 300)),
])
C["C08"]["harnesses"] += [
    H("ZZReaderTwo", "internal/peerconn/peerreader", "real PeerReader.Run on any unfragmented byte stream <= 11 bytes, any maxMsgSize: no panic, allocation <= max(maxMsgSize,16K), caps on request/piece/bitfield, up to 2 deliveries", T(80, 900), T(80, 900), replay="model"),
    H("ZZReaderOne", "internal/peerconn/peerreader", "any unfragmented stream <= 17 bytes (covers a full request frame), first delivery", T(80, 1800, 8, 6), None, replay="model"),
    H("ZZReaderFirst", "internal/peerconn/peerreader", "any stream <= 18 bytes with none/one split/byte-by-byte fragmentation, first delivery", None, T(80, 3600, 32, 8), replay="model"),
]
C["C08"]["assumptions"] += ["net.Conn replaced by an in-memory connection serving an arbitrary byte stream", "extension payload decoding (bencode, reflection) replaced by 'decodes or fails'"]

C["C04"] = dict(assumptions=["torrent built by the real newTorrent; its event loop is not started: the harness calls the handlers the loop would call, one event at a time (single-threaded event loop)", "workers started with `go` are not run; their completions are symbolic events (allocation/verification results arbitrary); ghost workers honour Close()", "resume database, acceptor, external IP lookup replaced by recorders", "wall-clock clauses (stop within tracker timeout) outside the claim"], harnesses=[
    H("ZZLifecycle4", "torrent", "every sequence of 4 lifecycle events (start, stop, verify, stop-announce done, allocation done, verification done with arbitrary results) from a freshly added 2-piece torrent with arbitrary resume bitfield: no panic/crash, status truthful (Seeding => all pieces; Stopped/Stopping => no peers, downloads, open files), completion flag == completion channel, no command dropped, verification never leaves the torrent transferring", T(30, 900, flags=["-nospawn"]), None, replay="model"),
    H("ZZLifecycle6", "torrent", "same with 6 events", None, T(30, 3000, 16, 7, flags=["-nospawn"]), replay="model"),
])

C["C17"] = dict(assumptions=["the resource manager's run loop is the real goroutine; select with several ready cases forks one path per case"], harnesses=[
    H("ZZRequestAnswered", "internal/resourcemanager", "3 operations (request 1..3 units with the requester's cancel channel open or already closed / release) on a manager with limit 0..3: every Request returns (no deadlock of the caller), allocated size within [0, limit], object count >= 0, reservations balance (booked == what requesters were told)", T(80, 900, 4, 5), T(80, 900, 4, 5), replay="model"),
])
C["C12"] = dict(assumptions=["marker bytes do not occur earlier in the stream (they are SHA-1 / RC4 output)", "net.Conn replaced by an in-memory connection"], harnesses=[
    H("ZZReadSync8", "internal/mse", "readSync with an 8-byte marker after 0..6 bytes of padding, any scan limit, none/one split/byte-by-byte fragmentation: found iff the marker ends within the limit; consumes exactly up to the marker", T(80, 900), T(80, 900)),
    H("ZZReadSync20", "internal/mse", "20-byte marker after 0..10 bytes of padding", None, T(260, 1800, 4, 4)),
])

C["C19"] = dict(assumptions=["torrent built by the real newTorrent and driven to Downloading through the real handlers; peer connected through the real startPeer with an in-memory connection", "messages sent to peers, DHT node additions and 'need more peers' signals are recorded (the peer writer, the DHT node and the announcer goroutines are not running)", "the decoded value of the private flag is the input (the three bencode decodings of parsePrivateField are outside the claim)"], harnesses=[
    H("ZZPrivateNoLeak", "torrent", "private or public 2-piece torrent, every combination of PEXEnabled/DHTEnabled/DHT node present: extension handshake advertising ut_pex+ut_metadata, PEX message with an arbitrary address, DHT peer list, port message, magnet export, identity strings", T(30, 900, flags=["-nospawn"]), T(30, 900, flags=["-nospawn"]), replay="model"),
])

C["C03"]["harnesses"] += [
    H("ZZRequestStep", "torrent", "request handler on a real torrent (2 pieces, arbitrary Done bits) and real peers: arbitrary 32-bit (index,begin,length), choking / fast extension / allowed-fast membership arbitrary: data queued only for valid requests of pieces we have, honouring choke/allowed-fast; queued request == received request; out-of-range closes that peer only", T(40, 900, flags=["-nospawn"]), T(40, 900, flags=["-nospawn"]), replay="model"),
]
C["C03"]["assumptions"] += ["torrent fixture: real newTorrent/startPeer, peer writer replaced by a recorder of SendMessage/SendPiece"]
C["C08"]["harnesses"] += [
    H("ZZMessageTotal", "torrent", "any single message (18 kinds, arbitrary field values; metadata size <= 3 blocks) from a real connected peer in each torrent state (metadata unknown / allocating / downloading / stopping): no panic or crash, only the sender may be dropped, the other peer and the torrent state are untouched", T(40, 1800, 8, 6, flags=["-nospawn"]), None, replay="model"),
    H("ZZMessageTwo", "torrent", "two arbitrary messages in a row from one peer while downloading", None, T(40, 3600, 32, 8, flags=["-nospawn"]), replay="model"),
]
C["C08"]["assumptions"] += ["torrent fixture: real newTorrent/startPeer; goroutines not run (ghost workers), peer writer / resume db / DHT node replaced by recorders"]

C["C09"] = dict(assumptions=["torrent fixture: real newTorrent/startPeer/handlers and the real piece picker; requests sent to peers are recorded", "web-seed ranges are not exercised (no web-seed sources in the fixture)"], harnesses=[
    H("ZZPickerSeq3", "torrent", "every sequence of 3 peer events (have / unchoke / choke / allowed-fast / snub / disconnect / piece completion with good or bad hash) on a downloading 3-piece torrent with 2 real peers (one with the fast extension), end-game limit 1..2: every request sent is for a piece we lack and are not writing, to a peer that has it and is not choking (or allowed-fast), one download per peer, duplicates within the limit, available count exact", T(40, 1800, 8, 6, flags=["-nospawn"]), None, replay="model"),
    H("ZZPickerSequential3", "torrent", "same in sequential mode, plus: a non-allowed-fast pick for an unchoked peer is the lowest eligible piece, file-edge pieces first", T(40, 1800, 8, 6, flags=["-nospawn"]), None, replay="model"),
    H("ZZPickerSeq4", "torrent", "4 events, rarest-first", None, T(40, 7000, 32, 8, flags=["-nospawn"]), replay="model"),
    H("ZZPickerSequential4", "torrent", "4 events, sequential", None, T(40, 7000, 32, 8, flags=["-nospawn"]), replay="model"),
])

C["C14"] = dict(assumptions=["metainfo parser replaced by 'parses to a fixed 2-piece torrent or is rejected'", "resume database replaced by its contract: one update = one atomic transaction that succeeds or fails as a whole (Write may fail; bucket deletion succeeds)", "uuid.NewV1 replaced by distinct values", "torrent event loops not started (ghost workers honour Close)", "restart equivalence (session start-up loading), database compaction and concurrent callers are outside the claim"], harnesses=[
    H("ZZRegistrySeq", "torrent", "every sequence of 3 AddTorrent/RemoveTorrent operations on a real Session value with a 2-port range (explicit or generated ids; metainfo rejection, storage failure, resume-write failure injected arbitrarily): ids unique, no two live torrents share a port, every port free or owned exactly once, failed add releases exactly its port and registers nothing, session torrents == resume records", T(40, 1800, 4, 5, flags=["-nospawn"]), T(40, 1800, 4, 5, flags=["-nospawn"]), replay="model"),
])

C["C05"]["harnesses"] += [
    H("ZZCrashOrder", "torrent", "effect log of storage writes and resume-database updates over up to two complete-piece cycles (real piece writer: arbitrary content vs arbitrary recorded hash, disk write may fail) followed optionally by stop: for every prefix of the log (= every crash instant) the last persisted bitfield claims only pieces verified before the run or whose complete hash-checked data was written earlier", T(40, 900, flags=["-nospawn"]), T(40, 900, flags=["-nospawn"]), replay="model"),
    H("ZZResumeTrust", "torrent", "allocation result vs resume bitfield, all combinations: resume bits trusted only if no file is missing; all files missing => empty bitfield; otherwise full re-verification and no piece trusted meanwhile", T(40, 900, flags=["-nospawn"]), T(40, 900, flags=["-nospawn"]), replay="model"),
]
C["C05"]["assumptions"] += ["a returned WriteAt is durable (O_SYNC, checked by ZZOpenSync; kernel behaviour outside)", "one resume update = one atomic bbolt transaction (bbolt's own crash atomicity outside)", "the periodic stats writer goroutine is outside the claim (it persists the same in-memory bitfield under the read lock)"]

SECRW = H("ZZSectionRW2", "internal/filesection", "filesection.Piece.Write then ReadAt of any sub-range (1..16384 bytes) on <=2 sections (data on in-memory files at arbitrary offsets, or padding), piece <= 64 KiB, arbitrary content: every non-padding byte lands at its file position, padding is never written and reads as zero, read-back == written", T(40, 1800, 6, 5), T(40, 1800, 6, 5))
C["C02"]["harnesses"] += [SECRW, H("ZZSectionRW3", "internal/filesection", "same with <=3 sections", None, T(40, 7000, 32, 8))]
C["C01"]["harnesses"] += [SECRW]
C["C03"]["harnesses"] += [
    H("ZZRequestStepShortLast", "torrent", "request handler with a short last piece (8197 bytes): requests beyond the last piece's own length are refused", T(40, 900, flags=["-nospawn"]), T(40, 900, flags=["-nospawn"]), replay="model"),
]
C["C11"]["harnesses"] += [
    H("ZZWriterPieceTwice", "internal/peerconn/peerwriter", "the same request served twice: second answer is a reject frame and is not counted as uploaded payload", T(45, 600), T(45, 600)),
]
C["C09"]["harnesses"] = [h for h in C["C09"]["harnesses"] if h["fn"] != "ZZPickerSequential3"] + [
    H("ZZPickerRich0", "torrent", "rich initial state: arbitrary progress (verified pieces), an allowed-fast grant, arbitrary bitfields and choke state of both peers (reaches end-game, allowed-fast-while-choked and duplicate-download states); also no starvation: an idle unchoked peer holding a needed piece that is unrequested, or - in end game - below the duplicate limit, gets a request", T(40, 1800, 4, 5, flags=["-nospawn"]), T(40, 1800, 4, 5, flags=["-nospawn"]), replay="model"),
    H("ZZPickerRich0Sequential", "torrent", "the same in sequential mode", T(40, 1800, 4, 5, flags=["-nospawn"]), T(40, 1800, 4, 5, flags=["-nospawn"]), replay="model"),
    H("ZZPickerRich1", "torrent", "rich initial state then 1 event", None, T(40, 7000, 32, 8, flags=["-nospawn"]), replay="model"),
    H("ZZPickerSequential3", "torrent", "3 events in sequential mode, plus: a non-allowed-fast pick for an unchoked peer is the lowest eligible piece, file-edge pieces first", None, T(40, 3600, 16, 7, flags=["-nospawn"]), replay="model"),
    H("ZZPickerRich2", "torrent", "rich initial state then 2 events", None, T(40, 7000, 32, 8, flags=["-nospawn"]), replay="model"),
    H("ZZPickerRichSequential1", "torrent", "rich initial state, sequential mode, 1 event", None, T(40, 3600, 16, 7, flags=["-nospawn"]), replay="model"),
]

C["C10"]["harnesses"] += [h for h in C["C09"]["harnesses"] if h["fn"] in ("ZZPickerRich0", "ZZPickerRich0Sequential", "ZZPickerRichSequential1", "ZZPickerRich1")]
C["C10"]["assumptions"] += ["no-starvation clause: torrent fixture (real newTorrent/startPeer/handlers, real picker), requests recorded; whole-download completion over all layouts is argued from the per-piece harnesses plus no-starvation, not run end to end"]

C["C13"]["harnesses"] += [
    H("ZZMetadataSizeCap", "torrent", "magnet torrent, extension handshake with an arbitrary 64-bit announced metadata size (maximum configured to 3 blocks): a fetch starts only for a positive size within the maximum from a peer offering ut_metadata; buffer == announced size", T(45, 900, flags=["-nospawn"]), T(45, 900, flags=["-nospawn"]), replay="model"),
]
C["C13"]["assumptions"] += ["torrent fixture (real newTorrent/startPeer, recorders for the peer writer)", "info dictionary parser replaced by parses-or-not in the adoption harness; the magnet text round trip is not covered"]
C["C15"]["harnesses"] += [
    H("ZZAnnouncerEvents", "internal/announcer", "real PeriodicalAnnouncer.Run + announce goroutines against a tracker whose two replies are arbitrary (ok with any 32-bit interval/min-interval in seconds incl. zero and negative, failure with any retry-in, undecodable), completion signal before / during / never: first event 'started', 'completed' at most once and never when complete at start, timer never armed sooner than min(tracker's positive interval, effective minimum interval) / retry-in / back-off, HasAnnounced iff an announce was accepted", T(45, 1800, 8, 6), T(45, 1800, 8, 6), replay="model"),
]
C["C15"]["assumptions"] += ["timers are model timers fired by the harness; back-off replaced by its contract (>= 2.5 s)", "time.Now is symbolic non-decreasing"]

C["C17"]["harnesses"] += [
    H("ZZIncomingConnections", "torrent", "3 incoming connections (duplicate addresses possible, an address possibly banned) on a downloading torrent with MaxPeerAccept 1..2: incoming handshakes+peers never exceed the limit; refused connections are closed at once; a connection whose handshake fails (real incominghandshaker.Run + btconn.Accept on a 5-byte stream) is closed and its address forgotten", T(45, 900, flags=["-nospawn"]), T(45, 900, flags=["-nospawn"]), replay="model"),
    H("ZZWebseedCap", "torrent", "real newTorrent with 0..12 web-seed sources and WebseedMaxSources 0..12: no crash, at most the maximum kept, nothing dropped within the limit", T(45, 900, flags=["-nospawn"]), T(45, 900, flags=["-nospawn"]), replay="model"),
]

DIAL = H("ZZDialAdmission", "torrent", "every sequence of 4 events on a downloading torrent with MaxPeerDial 1..2 and the blocklist 10.0.1.0/24 enabled - tracker reply with one of 6 addresses (two ports of one host, another host, a blocked host, the own listening address, a zero port), outgoing handshake done (ok/failed), a connected peer delivering a piece that fails the hash check, a disconnect, an incoming connection (3 hosts), completion, stop (the last two end the sequence): every dial goes to an address with non-zero port that is not the client's own, not blocked, not banned (incl. the peer banned by this very event), not already connected or connecting; at most MaxPeerDial outgoing connections; one connection per IP; the corrupt peer is disconnected and banned; blocked/banned/duplicate incoming connections are closed; an IP is marked connected only while a connection or handshake to it exists, also after completion and after stop; a stopped torrent has no peers, handshakes or candidate addresses", T(40, 1800, 6, 6, flags=["-nospawn"]), T(40, 1800, 6, 6, flags=["-nospawn"]), replay="model")
C["C18"]["harnesses"] += [
    DIAL,
    H("ZZDialAdmission5", "torrent", "5 events", None, T(40, 7000, 32, 8, flags=["-nospawn"]), replay="model"),
    H("ZZAddrListFilter", "internal/addrlist", "one Push of an arbitrary address (any 4 IP bytes, any 16-bit port) with the blocklist 10.0.1.0/24, listening port 6881, client address 10.0.0.9: stored iff port != 0, not loopback:6881, not the client's address, not blocked (real blocklist loader + segment tree)", T(40, 600), T(40, 600)),
    H("ZZAddrListSeq", "internal/addrlist", "every sequence of 4 Push (one of 3 admissible addresses, arbitrary possibly colliding priorities, symbolic non-decreasing clock) / Pop operations on the real AddrList (real google/btree) bounded to 1..2: never more than the maximum stored, representation consistent (indexes, sizes, no panic), per-source counts exact, Pop returns and removes exactly the stored address of highest priority", T(40, 1800, 6, 6), T(40, 1800, 6, 6), replay="model"),
    H("ZZAddrListSeq5", "internal/addrlist", "5 operations, bound 1..3", None, T(40, 7000, 32, 8), replay="model"),
    H("ZZLoadConcrete", "internal/blocklist", "real loader (bufio scanner, net.ParseCIDR) on a concrete list with a comment, one rule and a blank line: one rule; 10.0.1.x blocked for every x, 10.0.0.x and 10.0.2.x not", T(60, 600), T(60, 600)),
]
C["C18"]["assumptions"] += ["peer priority (CRC32-C of the address pair) replaced by an arbitrary function of the address (addrlist harness) / an injective concrete function (dial harness)", "torrent fixture for dial admission: real newTorrent/handlers, handshaker goroutines not run (their results are events)", "announce-to-blocked-tracker (resolver) not covered", "package unique modelled by an engine-side interning table"]
C["C01"]["harnesses"] += [DIAL]
C["C04"]["harnesses"] += [DIAL]
C["C17"]["harnesses"] += [
    DIAL,
    H("ZZWriterQueueCap", "internal/peerconn/peerwriter", "real PeerWriter.Run + message writer on a connection that takes a frame only when the harness lets it; every sequence of 5 operations (queue an upload, cancel a queued / written / never-made request, choke, connection takes a frame) with a limit of 1..2 queued requests, fast extension on/off: queued piece messages <= limit, the writer's counter == piece messages actually queued (never negative)", T(45, 1800, 4, 6), T(45, 1800, 4, 6)),
    H("ZZWriterQueueCap6", "internal/peerconn/peerwriter", "6 operations", None, T(45, 7000, 32, 8)),
]

C["C13"]["harnesses"] += [
    H("ZZMetadataAdopt", "torrent", "magnet torrent, two peers offering ut_metadata (2 blocks); every sequence of 4 metadata messages from either peer - data with piece index 0..2, arbitrary content, length full block / last block / wrong, or reject; duplicates included - : metadata is adopted only if its SHA-1 (uninterpreted function: both outcomes explored for any content) equals the link's info-hash; the adopted bytes are not modified by later messages; no metadata download stays registered after adoption; parse failure stops cleanly; metadata of a private torrent is refused and not kept", T(40, 1800, 6, 6, flags=["-nospawn"]), T(40, 1800, 6, 6, flags=["-nospawn"]), replay="model"),
    H("ZZMetadataAdopt5", "torrent", "5 messages", None, T(40, 7000, 32, 8, flags=["-nospawn"]), replay="model"),
]
C["C01"]["harnesses"] += [h for h in C["C05"]["harnesses"] if h["fn"] == "ZZCrashOrder"]

C["C12"]["harnesses"] += [
    H("ZZTwoParty", "internal/mse", "real HandshakeOutgoing and HandshakeIncoming as two goroutines over an in-memory pipe (whole or byte-by-byte transport), same key, each of the four pads 0..1 bytes, initial payload 0 or 2 bytes, offer {plain, rc4, both}, responder selecting none / plaintext / rc4 / an invalid value: fails on both sides or both agree on one offered cipher; initial payload and a message in each direction are read unchanged", T(120, 900, 4, 5), T(120, 900, 4, 5), replay="model"),
    H("ZZTwoPartyWrongKey", "internal/mse", "different keys never complete on both sides", T(120, 900), T(120, 900), replay="model"),
]
C["C12"]["assumptions"] += ["Diffie-Hellman replaced by 'both sides derive the same opaque secret'; SHA-1 of the secret by arbitrary fixed strings per label (req1 not starting with a zero byte); HASH(req2,SKEY) by an injective function of the key; RC4 by XOR with a fixed non-repeating keystream per key label; pads are zero bytes: excludes only the 2^-64 coincidence of a marker occurring inside padding", "encryption policy matrix of btconn.Accept/Dial not covered yet"]

C["C12"]["harnesses"] += [
    H("ZZAcceptPolicy", "internal/btconn", "real btconn.Accept (real mse.HandshakeIncoming underneath) against a peer that dials in cleartext or runs the real mse.HandshakeOutgoing offering plaintext / RC4 / both, force-incoming-encryption on/off, crypto replaced by the algebraic model: forced => accepted only with RC4, a cleartext dial or plaintext-only offer is refused and never answered in cleartext; not forced => cleartext accepted as cleartext, plaintext-only offer selects plaintext, RC4 preferred when offered; reported handshake fields are the peer's; the peer reads the acceptor's handshake unchanged", T(120, 900), T(120, 900), replay="model"),
]

C["C11"]["harnesses"] += [
    H("ZZReaderSlowPiece", "internal/peerconn/peerreader", "a piece message whose 6-byte block arrives slowly - the read deadline expires at up to two arbitrary points inside the block (in-memory connection returning a timeout error at those stream positions) - followed by a have message: the block delivered equals the block sent, the following message is decoded (framing kept); a deadline expiring before any byte of the block drops the peer", T(60, 600), T(60, 600)),
]
C["C08"]["harnesses"] += [h for h in C["C11"]["harnesses"] if h["fn"] == "ZZReaderSlowPiece"]

C["C14"]["harnesses"] += [
    H("ZZResumeFieldUpdates", "internal/resumer/boltdbresumer", "on a record with all 32 flag combinations, arbitrary info-hash / info / bitfield bytes: each of the six single-field updaters (WriteStarted, HandleStopAfterDownload, HandleStopAfterMetadata, WriteCompleteCmdRun, WriteInfo, WriteBitfield) changes exactly the fields it documents and every other field reads back as written", T(80, 900), T(80, 900), replay="model"),
    H("ZZResumeRoundTrip", "internal/resumer/boltdbresumer", "a torrent record written with Write and read back with Read, then single-field updates (WriteStarted, WriteBitfield) read back: every field equal to what was written - arbitrary info-hash / info / bitfield bytes, all flag combinations, versions 0..3, port at the range boundaries, each transfer counter at every power-of-two boundary 2^k and 2^k-1 (k < 63), seeding time at 4 durations, concrete name / trackers / web seeds / added-at", T(80, 900), T(80, 900), replay="model"),
]
C["C14"]["assumptions"] += ["resume round trip: bbolt replaced by its key/value contract (nested buckets as maps, Put stores a copy), encoding/json replaced by an opaque faithful encoding (tracker / url / peer lists not examined byte-wise)"]

C["C14"]["harnesses"] += [
    H("ZZCompactDatabase", "torrent", "CompactDatabase on a session holding one torrent in an arbitrary resting state (with/without metadata, with/without bitfield, arbitrary flags, uploaded counter 0..3 GiB) through the real boltdbresumer into the key/value contract of bbolt: no crash; a torrent with metadata gets a record whose fields read back equal to the torrent's state", T(80, 900, flags=["-nospawn"]), T(80, 900, flags=["-nospawn"]), replay="model"),
]
C["C04"]["harnesses"] += [
    H("ZZStopAfterDownloadOnce", "torrent", "complete torrent added with stop-after-download: stops by itself once and clears the option once; a later start command takes effect (Seeding), the option is not cleared twice", T(40, 600, flags=["-nospawn"]), T(40, 600, flags=["-nospawn"]), replay="model"),
]

CIF = H("ZZAnnouncerCompleteInFlight", "internal/announcer", "the download completes while an announce ('started' or a later periodic one) is still in flight at a slow tracker: the in-flight announce is cancelled, 'completed' is announced on a live context, its reply is processed (announcer leaves 'contacting'), and the next periodic announce goes out when the timer fires", T(45, 600), T(45, 600), replay="model")
C["C16"]["harnesses"] += [CIF]
C["C15"]["harnesses"] += [CIF]

WSD = "downloading 3-piece torrent with 2 web-seed sources (limit 1..2 concurrent, range length cap 1..3, web seeds failed once at start and retried at once or later) and one peer with an arbitrary bitfield; events: peer unchokes / chokes / completes its piece (hash ok or not) / disconnects, a web seed finishes the piece it is on and its write completes (hash ok or not) or its request fails, the retry timer of a failed web seed fires; checked after every event: peer-side request clauses (never a piece we have or are writing, ...), web-seed ranges never overlap, range bookkeeping consistent with the picker's per-piece owner, active-download count exact and within the limit, no crash (internal panics)"
WS2 = H("ZZPickerWebseed2", "torrent", "every sequence of 2 events: " + WSD, T(40, 1800, 6, 6, flags=["-nospawn"]), T(40, 1800, 6, 6, flags=["-nospawn"]), replay="model")
WSL = H("ZZPickerWebseedLate", "torrent", "the 3-event script unchoke, web-seed retry, peer completes its piece (a range handed out around a piece a peer is already downloading), all other choices arbitrary: " + WSD, T(40, 900, flags=["-nospawn"]), T(40, 900, flags=["-nospawn"]), replay="model")
WS3 = H("ZZPickerWebseed3", "torrent", "every sequence of 3 events: " + WSD, None, T(40, 3000, 10, 7, flags=["-nospawn"]), replay="model")
C["C09"]["harnesses"] += [WS2, WSL, WS3]
C["C17"]["harnesses"] += [WS2]
C["C09"]["assumptions"] = [a for a in C["C09"]["assumptions"] if "web-seed ranges are not exercised" not in a] + ["web-seed download goroutine not run: its results (piece finished / request failed) are events, produced exactly as urldownloader.Run's completePiece does", "web-seed range length cap (5% of the pieces in the picker) set to 1..3 on the 3-piece fixture so that multi-piece ranges occur"]

SWE = H("ZZSectionWriteError", "internal/filesection", "a piece of 1..3 data sections (1..3 bytes each) written to in-memory files of which an arbitrary one rejects the write: Write reports an error (a piece is never reported written when a section is not on disk) and writes nothing after the failing section", T(40, 600), T(40, 600))
C["C05"]["harnesses"] += [SWE]
C["C01"]["harnesses"] += [SWE]
C["C19"]["harnesses"] += [h for h in C["C13"]["harnesses"] if h["fn"] == "ZZMetadataAdopt"]
C["C19"]["assumptions"] += ["magnet metadata adoption: info dictionary parser replaced by parses-or-not with an arbitrary private flag"]

C["C06"]["harnesses"] += [
    H("ZZParseInfoLimits", "torrent", "Session.parseInfo (resume data / peer-supplied info) on an arbitrary decoded dictionary (<=2 files, <=3 piece hashes, symbolic lengths), resume version 0..4, piece-count limit 0..3: rejected, or positive piece length, 1..MaxPieces pieces, known version", T(40, 900, flags=["-nospawn"]), T(40, 900, flags=["-nospawn"]), replay="model"),
]

RAMD = "downloading 3-piece torrent with the real piece-memory manager (its goroutine runs; budget 1..2 pieces) and two unchoked peers holding every piece, so that requests queue up; events: a peer completes its piece (hash ok or not), a peer disconnects, a peer chokes, the torrent is stopped; the event loop is modelled as always ready to take a grant (so the manager's choice between granting and noticing that the requester went away goes both ways) and grants are handled after every event: reserved memory == piece length x running downloads, never above the budget, zero once the torrent has stopped"
C["C17"]["harnesses"] += [
    H("ZZRamBalance1", "torrent", "one event: " + RAMD, T(40, 1800, 4, 5), T(40, 1800, 4, 5), replay="model"),
    H("ZZRamBalance2", "torrent", "every sequence of 2 events: " + RAMD, None, T(40, 3000, 12, 7), replay="model"),
]
C["C03"]["harnesses"] += [SECRW]

URLRUN = H("ZZURLRun", "internal/urldownloader", "the real web-seed download goroutine (Run) over a single-file torrent of 3 pieces of 4 bytes, arbitrary piece range, server answering in full / bad status / transport error / body one byte short, range possibly shortened after the first piece: results in piece order, every delivered buffer holds exactly that piece's bytes of the served file, Done on the last piece, one error result then nothing, a delivered buffer is never handed back to the pool by the downloader", T(40, 900), T(40, 900), replay="model")
C["C01"]["harnesses"] += [URLRUN]
C["C10"]["harnesses"] += [URLRUN]
C["C01"]["assumptions"] += ["web-seed downloader: HTTP client replaced by a server model (status + body per range request); request construction (net/http, net/url) not encoded"]

C["C04"]["harnesses"] += [
    H("ZZVerifyFindsDamage", "torrent", "a complete, seeding torrent is verified by hand; the verification finds an arbitrary subset of the pieces: it ends stopped with the completion flag == every piece verified; started again it is Seeding only if every piece verified, else Downloading; lifecycle invariant after every step", T(40, 600, flags=["-nospawn"]), T(40, 600, flags=["-nospawn"]), replay="model"),
]

C["C09"]["harnesses"] += [
    H("ZZPickerStalledThenIdle", "torrent", "rich initial state (arbitrary progress, allowed-fast grant, bitfields, choke state of 2 peers), then one peer's download stalls (snub) and a peer completes its piece (hash ok or not) and asks for the next one - stalled downloads vs the end-game duplicate limit; which peer does what is arbitrary; all request / download-table / no-starvation clauses after every event", T(40, 1800, 6, 6, flags=["-nospawn"]), T(40, 1800, 6, 6, flags=["-nospawn"]), replay="model"),
    H("ZZPickerChokedThenIdle", "torrent", "the same with a choke instead of the snub", None, T(40, 1800, 6, 6, flags=["-nospawn"]), replay="model"),
]

# Thorough-only harnesses that were written but whose thorough bounds were never run to completion on the
# unchanged tree within the time available are not registered (a check is registered only with bounds that ran
# clean): they stay in the harness files and can be run with bin/gosym directly.
PROBING = {"ZZAddrListSeq5", "ZZWriterQueueCap6", "ZZMetadataAdopt5"}
NOT_RUN_CLEAN = {"ZZAdversary3", "ZZSectionRW3", "ZZPathsConfined2", "ZZReaderFirst", "ZZMessageTwo", "ZZPickerSeq4",
                 "ZZPickerSequential4", "ZZPickerRich2", "ZZHonestPiece", "ZZMetadataAdopt5", "ZZWriterQueueCap6",
                 "ZZStreeExact3", "ZZAddrListSeq5", "ZZPickerWebseed4", "ZZRamBalance2"}
for pid, spec in C.items():
    spec["harnesses"] = [h for h in spec["harnesses"] if h["fn"] not in NOT_RUN_CLEAN or (os.environ.get("GEN_PROBING") and h["fn"] in PROBING)]
    seen = set()
    uniq = []
    for h in spec["harnesses"]:
        if h["fn"] not in seen:
            seen.add(h["fn"])
            uniq.append(h)
    spec["harnesses"] = uniq

for pid, spec in C.items():
    spec = dict(property=pid, **spec)
    json.dump(spec, open(os.path.join(D, pid + ".json"), "w"), indent=1)
print("wrote", sorted(C))
