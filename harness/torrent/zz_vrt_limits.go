package torrent

import (
	"net"
	"time"

	"github.com/cenkalti/rain/v2/internal/handshaker/incominghandshaker"
	"github.com/cenkalti/rain/v2/internal/resumer"
	"github.com/cenkalti/rain/v2/internal/webseedsource"
	vrt "github.com/cenkalti/rain/v2/internal/zzvrt"
)

// ZZIncomingConnections: up to 3 incoming connections (addresses arbitrary in
// 10.0.0.{1,2}, so duplicates occur) on a downloading torrent with
// MaxPeerAccept 1..2 and an arbitrary banned address: the number of incoming
// handshakes + peers never exceeds the limit; a refused connection (limit,
// duplicate address, banned address) is closed at once and no handshake is
// started for it; a connection whose handshake FAILS is closed as well and
// its address is forgotten.
//
//vrt:cover ZZIncomingConnections refused over the limit
//vrt:cover ZZIncomingConnections refused duplicate
//vrt:cover ZZIncomingConnections handshake failed
func ZZIncomingConnections() {
	t, _ := zzDownloadingWithBits()
	limit := vrt.Choice("max_peer_accept", 2) + 1
	t.session.config.MaxPeerAccept = limit
	if vrt.Bool("an_address_is_banned") {
		t.bannedPeerIPs[net.IP{10, 0, 0, 2}.String()] = struct{}{}
	}
	for k := 0; k < 3; k++ {
		ip := byte(vrt.Choice("remote_ip", 2) + 1)
		conn := &vrt.Conn{Remote: &net.TCPAddr{IP: net.IP{10, 0, 0, ip}, Port: 7000 + k}, In: []byte{1, 2, 3, 4, 5}}
		before := len(t.incomingHandshakers)
		_, dup := t.connectedPeerIPs[conn.Remote.IP.String()]
		_, banned := t.bannedPeerIPs[conn.Remote.IP.String()]
		full := len(t.incomingHandshakers)+len(t.incomingPeers) >= limit
		t.handleNewConnection(conn)
		vrt.Assert(len(t.incomingHandshakers)+len(t.incomingPeers) <= limit, "more incoming connections than MaxPeerAccept")
		if full || dup || banned {
			vrt.Cover(full, "refused over the limit")
			vrt.Cover(dup && !full, "refused duplicate")
			vrt.Assert(len(t.incomingHandshakers) == before, "handshake started for a connection that must be refused")
			vrt.Assert(conn.Closed == 1, "refused connection not closed")
			continue
		}
		vrt.Assert(len(t.incomingHandshakers) == before+1 && conn.Closed == 0, "acceptable connection not handed to a handshaker")
		if !vrt.Bool("handshake_fails_now") {
			continue
		}
		// the peer sends 5 bytes and goes silent: the real handshaker fails
		var h *incominghandshaker.IncomingHandshaker
		for x := range t.incomingHandshakers {
			if x.Conn == net.Conn(conn) {
				h = x
			}
		}
		vrt.Assert(h != nil, "handshaker for the connection not found")
		if h == nil {
			return
		}
		resultC := make(chan *incominghandshaker.IncomingHandshaker, 1)
		h.Run(t.peerID, t.getSKey, t.checkInfoHash, resultC, time.Second, t.session.extensions, false)
		res := <-resultC
		vrt.Cover(res.Error != nil, "handshake failed")
		vrt.Assert(res.Error != nil, "handshake of a 5-byte stream succeeded")
		t.handleIncomingHandshakeDone(res)
		vrt.Assert(len(t.incomingHandshakers) == before, "failed handshaker still counted")
		_, still := t.connectedPeerIPs[conn.Remote.IP.String()]
		vrt.Assert(!still, "address of a failed handshake still marked as connected")
		vrt.Assert(conn.Closed >= 1, "connection whose handshake failed was not closed")
	}
}

// ZZWebseedCap: the constructor with n web-seed sources (0..12) and any
// configured maximum (0..12) does not crash and keeps at most the maximum.
//
//vrt:cover ZZWebseedCap more sources than the limit
func ZZWebseedCap() {
	info := metainfoConcrete()
	s := zzSession()
	max := vrt.Choice("webseed_max_sources", 13)
	s.config.WebseedMaxSources = max
	n := vrt.Choice("num_sources", 13)
	var urls []string
	for i := 0; i < n; i++ {
		urls = append(urls, "http://ws.example/")
	}
	vrt.Cover(n > max, "more sources than the limit")
	t, err := newTorrent(s, "tid", time.Time{}, info.Hash[:], &zzStorage{}, "name", 5000, nil, nil, info, nil, resumer.Stats{}, webseedsource.NewList(urls), false, false, false, false)
	vrt.Assert(err == nil && t != nil, "constructor failed")
	if t != nil {
		vrt.Assert(len(t.webseedSources) <= max || len(t.webseedSources) <= n && n <= max, "more web-seed sources kept than the configured maximum")
		if n <= max {
			vrt.Assert(len(t.webseedSources) == n, "web-seed sources dropped although within the limit")
		}
	}
}
