package torrent

import (
	"crypto/sha1"
	"errors"

	"github.com/cenkalti/rain/v2/internal/metainfo"
	"github.com/cenkalti/rain/v2/internal/peer"
	"github.com/cenkalti/rain/v2/internal/peerprotocol"
	vrt "github.com/cenkalti/rain/v2/internal/zzvrt"
)

// The bencode parser of the info dictionary is outside this harness: metadata
// bytes parse (to a fixed two-piece layout that keeps the very byte slice, as
// metainfo.NewInfo does) or are rejected, arbitrarily.
//
//vrt:replace (*github.com/cenkalti/rain/v2/torrent.Session).parseInfo github.com/cenkalti/rain/v2/torrent.zzParseInfo ZZMetadataAdopt ZZMetadataAdopt5
func zzParseInfo(s *Session, b []byte, version int) (*metainfo.Info, error) {
	if vrt.Bool("metadata_does_not_parse") {
		return nil, errors.New("zz: invalid info")
	}
	// the metadata may describe a private torrent: refused for a magnet link
	info := metainfo.ZZConcreteInfo(zzPieceLen, zzNumPieces, []int64{zzPieceLen * zzNumPieces}, vrt.Bool("metadata_is_private"))
	info.Bytes = b
	return info, nil
}

const zzMetaSize = 16384 + 8 // two metadata blocks

func zzMetadataInv(t *torrent) {
	if t.info == nil {
		return
	}
	vrt.Cover(true, "metadata adopted")
	vrt.Assert(!t.info.Private, "metadata of a private torrent kept by a torrent added from a magnet link (a later start would download it with the public identity)")
	vrt.Assert(len(t.info.Bytes) == zzMetaSize, "adopted metadata has the wrong size")
	vrt.Assert(sha1.Sum(t.info.Bytes) == t.infoHash, "adopted metadata does not hash to the magnet link's info-hash")
	vrt.Assert(len(t.infoDownloaders) == 0, "a metadata download is still registered after the metadata was adopted")
}

// ZZMetadataAdopt: a magnet torrent with two connected peers that both offer
// ut_metadata (size = 2 blocks). Every sequence of 4 metadata messages - data
// with arbitrary piece index (0..2), arbitrary content and a length of a full
// block, the last block's length or a wrong length, or a reject, from either
// peer, duplicates included: the torrent adopts metadata only if its SHA-1 is
// the link's info-hash (SHA-1 modelled as an uninterpreted function, so both
// outcomes are explored for any content), what it adopted keeps hashing to it
// whatever arrives later, and no metadata download stays registered.
//
//vrt:cover ZZMetadataAdopt metadata adopted
//vrt:cover ZZMetadataAdopt message after adoption
//vrt:cover ZZMetadataAdopt hash mismatch drops the peer
//vrt:cover ZZMetadataAdopt private metadata refused
func ZZMetadataAdopt() { zzMetadataAdopt(4) }

// ZZMetadataAdopt5: 5 messages.
func ZZMetadataAdopt5() { zzMetadataAdopt(5) }

func zzMetadataAdopt(steps int) {
	sto := &zzStorage{}
	t := zzNewTorrent(nil, nil, sto)
	t.start()
	vrt.Assert(t.status() == DownloadingMetadata, "fixture is not downloading metadata")
	peers := []*peer.Peer{zzAddPeer(t, 1, false, zzFastExt), zzAddPeer(t, 2, false, zzFastExt)}
	if peers[0] == nil || peers[1] == nil {
		vrt.Assert(false, "peers not added")
		return
	}
	for _, pe := range peers {
		hs := peerprotocol.ExtensionHandshakeMessage{M: map[string]uint8{"ut_metadata": 3}, V: "x", MetadataSize: zzMetaSize}
		t.handlePeerMessage(peer.Message{Peer: pe, Message: hs})
	}
	vrt.Assert(len(t.infoDownloaders) >= 1, "no metadata download started")
	for step := 0; step < steps; step++ {
		pe := peers[vrt.Choice("peer", 2)]
		vrt.Assume(!pe.Closed)
		adopted := t.info != nil
		vrt.Cover(adopted, "message after adoption")
		var before []byte
		if adopted {
			before = append([]byte(nil), t.info.Bytes...)
		}
		if vrt.Bool("reject") {
			t.handlePeerMessage(peer.Message{Peer: pe, Message: peerprotocol.ExtensionMetadataMessage{Type: peerprotocol.ExtensionMetadataMessageTypeReject, Piece: uint32(vrt.Choice("piece", 3))}})
		} else {
			n := []int{16384, 8, 3}[vrt.Choice("data_len", 3)]
			msg := peerprotocol.ExtensionMetadataMessage{Type: peerprotocol.ExtensionMetadataMessageTypeData, Piece: uint32(vrt.Choice("piece", 3)), TotalSize: zzMetaSize, Data: vrt.Bytes("data", n)}
			_, had := t.infoDownloaders[pe]
			t.handlePeerMessage(peer.Message{Peer: pe, Message: msg})
			vrt.Cover(had && pe.Closed && t.info == nil, "hash mismatch drops the peer")
			vrt.Cover(had && t.info == nil && t.status() == Stopping, "private metadata refused")
		}
		if adopted {
			vrt.Assert(t.info != nil && len(t.info.Bytes) == len(before), "adopted metadata replaced")
			if t.info != nil && len(t.info.Bytes) == len(before) {
				j := vrt.Choice("witness_byte", 3)
				k := []int{0, 16383, 16384 + 7}[j]
				vrt.Assert(t.info.Bytes[k] == before[k], "adopted metadata modified by a later message")
			}
		}
		zzMetadataInv(t)
	}
}

//vrt:use internal/metainfo

// ZZParseInfoLimits: an info dictionary from resume data or from peers (the
// decoder yields an arbitrary dictionary: <=2 files, <=3 piece hashes, all
// lengths symbolic) with an arbitrary resume version and an arbitrary
// configured piece-count limit: parseInfo rejects it or returns a description
// with a positive piece length, 1..MaxPieces pieces and a known version.
//
//vrt:cover ZZParseInfoLimits too many pieces rejected
//vrt:cover ZZParseInfoLimits accepted
func ZZParseInfoLimits() {
	s := zzSession()
	s.config.MaxPieces = uint32(vrt.Choice("max_pieces", 4))
	version := vrt.Choice("resume_version", 5)
	b, ib := metainfo.ZZPrepareSymbolicInfo(2, 3)
	info, err := s.parseInfo(b, version)
	if err != nil {
		vrt.Cover(version >= 1 && version <= 3 && len(ib.Pieces) == 60 && s.config.MaxPieces < 3, "too many pieces rejected")
		return
	}
	vrt.Cover(true, "accepted")
	vrt.Assert(version >= 1 && version <= 3, "info accepted with an unknown resume data version")
	vrt.Assert(info.NumPieces >= 1 && info.NumPieces <= s.config.MaxPieces, "info accepted with more pieces than the configured maximum")
	vrt.Assert(info.PieceLength > 0 && info.Length >= 0, "accepted info is not well-formed")
}
