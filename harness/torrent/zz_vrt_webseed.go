package torrent

import (
	"github.com/cenkalti/rain/v2/internal/metainfo"
	"github.com/cenkalti/rain/v2/internal/peer"
	"github.com/cenkalti/rain/v2/internal/peerconn/peerreader"
	"github.com/cenkalti/rain/v2/internal/peerprotocol"
	"github.com/cenkalti/rain/v2/internal/piecewriter"
	"github.com/cenkalti/rain/v2/internal/resumer"
	"github.com/cenkalti/rain/v2/internal/urldownloader"
	"github.com/cenkalti/rain/v2/internal/webseedsource"
	vrt "github.com/cenkalti/rain/v2/internal/zzvrt"
	"time"
)

// zzWebseedChecks: the web-seed clauses of the piece-selection property.
func zzWebseedChecks(t *torrent) {
	if t.piecePicker == nil {
		return
	}
	active := 0
	owner := map[uint32]*webseedsource.WebseedSource{}
	for _, src := range t.webseedSources {
		if src.Downloader == nil {
			continue
		}
		active++
		d := src.Downloader
		vrt.Assert(d.Begin <= d.ReadCurrent() && d.ReadCurrent() < d.End && d.End <= zzPickPieces, "web-seed range out of order or beyond the torrent")
		for i := d.ReadCurrent(); i < d.End; i++ {
			vrt.Assert(owner[i] == nil, "piece ranges of two web seeds overlap")
			owner[i] = src
		}
		for i := d.Begin; i < d.End; i++ {
			vrt.Assert(t.piecePicker.ZZWebseedOwner(i) == src, "piece inside a web-seed range is not marked as assigned to that web seed")
		}
	}
	for i := uint32(0); i < zzPickPieces; i++ {
		if o := t.piecePicker.ZZWebseedOwner(i); o != nil {
			vrt.Assert(o.Downloader != nil && o.Downloader.Begin <= i && i < o.Downloader.End, "piece marked as assigned to a web seed that is not downloading it")
		}
	}
	vrt.Assert(t.webseedActiveDownloads == active, "count of active web-seed downloads differs from the web seeds that are downloading")
	vrt.Assert(active <= t.session.config.WebseedMaxDownloads, "more concurrent web-seed downloads than configured")
}

// ZZPickerWebseed3: a downloading 3-piece torrent with 2 web-seed sources
// (at most 1..2 concurrent web-seed downloads) and one peer with an arbitrary
// bitfield; every sequence of 3 events - the peer unchokes / chokes /
// completes its piece (hash ok or not) / disconnects, a web seed
// finishes the piece it is on (its write completes, hash ok or not), a web
// seed fails, the retry of a failed web seed fires (web seeds may also have
// failed before the peer connected): the peer-side clauses (never request a piece we have or are
// writing, ...) plus: web-seed ranges never overlap, range bookkeeping is
// consistent, the active-download count is exact and within its limit, no crash.
//
//vrt:cover ZZPickerWebseed3 peer took a piece from a web-seed range
//vrt:cover ZZPickerWebseed3 web seed finished its range
//vrt:cover ZZPickerWebseed3 two web seeds downloading
//vrt:cover ZZPickerWebseed3 web-seed range handed out while the peer is downloading
func ZZPickerWebseed3() { zzPickerWebseed(3) }

// ZZPickerWebseed2: 2 events.
//
//vrt:cover ZZPickerWebseed2 two web seeds downloading
func ZZPickerWebseed2() { zzPickerWebseed(2) }

// ZZPickerWebseed4: 4 events.
func ZZPickerWebseed4() { zzPickerWebseed(4) }

// ZZPickerWebseedLate: the 3-event script unchoke, web-seed retry, peer completes
// its piece (everything else arbitrary), after the web seeds failed at first.
func ZZPickerWebseedLate() {
	zzWebseedScript = []int{0, 5, 2}
	zzPickerWebseed(3)
	zzWebseedScript = nil
}

var zzWebseedScript []int

func zzPickerWebseed(steps int) {
	info := metainfo.ZZConcreteInfo(zzPieceLen, zzPickPieces, []int64{zzPieceLen * zzPickPieces}, false)
	sto := &zzStorage{}
	zzLog, zzSentLog, zzDHTNodes, zzCancelled, zzAcceptors, zzResumerFails = nil, nil, nil, nil, 0, false
	s := zzSession()
	s.config.WebseedMaxDownloads = vrt.Choice("webseed_max_downloads", 2) + 1
	t, err := newTorrent(s, "tid", time.Time{}, info.Hash[:], sto, "name", 5000, nil, nil, info, nil, resumer.Stats{}, webseedsource.NewList([]string{"http://ws1/", "http://ws2/"}), false, false, false, false)
	vrt.Assert(err == nil, "newTorrent failed")
	if err != nil {
		return
	}
	zzStartDownloading(t, sto)
	zzWebseedChecks(t)
	// Range length cap: 1..3 pieces (the picker's own value for a 3-piece torrent
	// is 1; 2 and 3 stand for larger torrents, see ZZSetMaxWebseedPieces). The
	// ranges handed out at start used the default, so the web seeds are made to
	// fail once and - arbitrarily - retried at once or later (event 5), which
	// also lets peers get pieces before any web-seed range exists.
	for _, src := range t.webseedSources {
		if src.Downloader != nil {
			t.handleWebseedPieceResult(&urldownloader.PieceResult{Downloader: src.Downloader, Error: vrt.ErrIO})
		}
	}
	t.piecePicker.ZZSetMaxWebseedPieces(vrt.Choice("webseed_range_cap", 3) + 1)
	if vrt.Bool("web_seeds_retried_at_once") {
		for _, src := range t.webseedSources {
			t.startPieceDownloaderForWebseed(src)
		}
	}
	zzWebseedChecks(t)
	pe := zzAddPeer(t, 1, false, zzFastExt)
	if pe == nil {
		vrt.Assert(false, "peer not added")
		return
	}
	peers := []*peer.Peer{pe}
	from := len(zzSentLog)
	t.handlePeerMessage(peer.Message{Peer: pe, Message: peerprotocol.BitfieldMessage{Data: []byte{vrt.U8("peer_bitfield") & 0xe0}}})
	zzPickerChecks(t, peers, from, false)
	zzWebseedChecks(t)
	for step := 0; step < steps; step++ {
		from := len(zzSentLog)
		n := 0
		for _, src := range t.webseedSources {
			if src.Downloader != nil {
				n++
			}
		}
		vrt.Cover(n == 2, "two web seeds downloading")
		ev := 0
		if zzWebseedScript != nil {
			ev = zzWebseedScript[step]
		} else {
			ev = vrt.Choice("event", 6)
		}
		switch ev {
		case 0:
			vrt.Assume(!pe.Closed)
			t.handlePeerMessage(peer.Message{Peer: pe, Message: peerprotocol.UnchokeMessage{}})
			if pd, ok := t.pieceDownloaders[pe]; ok {
				vrt.Cover(pd != nil, "peer took a piece from a web-seed range")
			}
		case 1:
			vrt.Assume(!pe.Closed)
			t.handlePeerMessage(peer.Message{Peer: pe, Message: peerprotocol.ChokeMessage{}})
		case 2:
			pd, ok := t.pieceDownloaders[pe]
			vrt.Assume(ok && !pe.Closed)
			buf := t.piecePool.Get(zzPieceLen)
			t.handlePieceMessage(peer.PieceMessage{Peer: pe, Piece: peerreader.Piece{PieceMessage: peerprotocol.PieceMessage{Index: pd.Piece.Index, Begin: 0}, Buffer: buf}})
			zzPickerChecks(t, peers, from, false)
			zzWebseedChecks(t)
			from = len(zzSentLog)
			pw := piecewriter.New(pd.Piece, pe, pd.Buffer)
			pw.HashOK = vrt.Bool("hash_ok")
			t.handlePieceWriteDone(pw)
		case 3:
			vrt.Assume(!pe.Closed)
			t.closePeer(pe)
		case 5: // the retry timer of a failed web seed fires
			src := t.webseedSources[vrt.Choice("web_seed", 2)]
			vrt.Assume(src.Disabled && src.Downloader == nil)
			_, peerBusy := t.pieceDownloaders[pe]
			t.startPieceDownloaderForWebseed(src)
			vrt.Cover(peerBusy && src.Downloader != nil, "web-seed range handed out while the peer is downloading")
		case 4:
			src := t.webseedSources[vrt.Choice("web_seed", 2)]
			vrt.Assume(src.Downloader != nil)
			ud := src.Downloader
			if vrt.Bool("web_seed_request_fails") {
				t.handleWebseedPieceResult(&urldownloader.PieceResult{Downloader: ud, Error: vrt.ErrIO})
				break
			}
			res := ud.ZZNextResult(t.piecePool.Get(zzPieceLen))
			pi := &t.pieces[res.Index]
			wasDone := pi.Done
			vrt.Cover(res.Done, "web seed finished its range")
			t.handleWebseedPieceResult(res)
			zzPickerChecks(t, peers, from, false)
			zzWebseedChecks(t)
			from = len(zzSentLog)
			if !wasDone {
				vrt.Assert(pi.Writing, "web-seed piece not handed to the writer")
				pw := piecewriter.New(pi, ud, res.Buffer)
				pw.HashOK = vrt.Bool("hash_ok")
				t.handlePieceWriteDone(pw)
			}
		}
		zzPickerChecks(t, peers, from, false)
		zzWebseedChecks(t)
	}
}
