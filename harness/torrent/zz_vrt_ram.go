package torrent

import (
	"github.com/cenkalti/rain/v2/internal/metainfo"
	"github.com/cenkalti/rain/v2/internal/peer"
	"github.com/cenkalti/rain/v2/internal/peerconn/peerreader"
	"github.com/cenkalti/rain/v2/internal/peerprotocol"
	"github.com/cenkalti/rain/v2/internal/piecewriter"
	"github.com/cenkalti/rain/v2/internal/resourcemanager"
	vrt "github.com/cenkalti/rain/v2/internal/zzvrt"
)

// In this harness the resource manager's goroutine really runs (cooperative
// scheduling); the torrent's own workers are still not run: their results are
// the events.
//
//vrt:nospawn (*github.com/cenkalti/rain/v2/torrent.torrent).run ZZRamBalance1 ZZRamBalance2
//vrt:nospawn (*github.com/cenkalti/rain/v2/internal/allocator.Allocator).Run ZZRamBalance1 ZZRamBalance2
//vrt:nospawn (*github.com/cenkalti/rain/v2/internal/verifier.Verifier).Run ZZRamBalance1 ZZRamBalance2
//vrt:nospawn (*github.com/cenkalti/rain/v2/internal/announcer.DHTAnnouncer).Run ZZRamBalance1 ZZRamBalance2
//vrt:nospawn (*github.com/cenkalti/rain/v2/internal/announcer.PeriodicalAnnouncer).Run ZZRamBalance1 ZZRamBalance2
//vrt:nospawn (*github.com/cenkalti/rain/v2/internal/announcer.StopAnnouncer).Run ZZRamBalance1 ZZRamBalance2
//vrt:nospawn (*github.com/cenkalti/rain/v2/internal/peer.Peer).Run ZZRamBalance1 ZZRamBalance2
//vrt:nospawn (*github.com/cenkalti/rain/v2/internal/piecewriter.PieceWriter).Run ZZRamBalance1 ZZRamBalance2
//vrt:nospawn (*github.com/cenkalti/rain/v2/internal/handshaker/outgoinghandshaker.OutgoingHandshaker).Run ZZRamBalance1 ZZRamBalance2
//vrt:nospawn (*github.com/cenkalti/rain/v2/torrent.Session).runOnCompleteCmd ZZRamBalance1 ZZRamBalance2

// The event loop is always ready to take a grant from the resource manager
// (case data := <-t.ramNotifyC). A forwarding goroutine stands in for that
// readiness, so that the manager's choice between "grant" and "requester went
// away" is explored both ways; the harness then handles the grant as the loop
// does.
var zzGrants chan *peer.Peer

func zzForwardGrants(t *torrent, quit chan struct{}) {
	for {
		select {
		case pe := <-t.ramNotifyC:
			zzGrants <- pe
		case <-quit:
			return
		}
	}
}

func zzDrainGrants(t *torrent) {
	for {
		vrt.Yield()
		select {
		case pe := <-zzGrants:
			vrt.Cover(true, "queued request granted later")
			t.startSinglePieceDownloader(pe)
		default:
			return
		}
	}
}

// zzRamInv: every reserved piece of memory belongs to a running piece download.
func zzRamInv(t *torrent) {
	st := t.session.ram.Stats()
	vrt.Assert(st.AllocatedObjects == len(t.pieceDownloaders), "piece-memory reservations differ from the running piece downloads (leak or double release)")
	vrt.Assert(st.AllocatedSize == int64(len(t.pieceDownloaders))*int64(t.info.PieceLength) && st.AllocatedSize >= 0, "reserved piece memory differs from piece length x running downloads")
	vrt.Assert(st.AllocatedSize <= int64(zzRamBudget)*int64(t.info.PieceLength), "more piece memory reserved than the configured budget")
}

var zzRamBudget int

// ZZRamBalance1: a downloading 3-piece torrent with the real piece-memory
// manager (budget 1..2 pieces) and two unchoked peers holding every piece, so
// that requests queue up; one event (ZZRamBalance2: every sequence of 2) - a peer completes its
// piece (hash ok or not), a peer disconnects, a peer chokes, the torrent is
// stopped - with the manager's grants delivered to the torrent afterwards:
// reserved memory always equals piece length x running downloads, never
// exceeds the budget, and is zero once the torrent has stopped.
//
//vrt:cover ZZRamBalance1 queued request granted later
//vrt:cover ZZRamBalance1 request queued at the budget
//vrt:cover ZZRamBalance1 stopped with a request queued
func ZZRamBalance1() { zzRamBalance(1) }

// ZZRamBalance2: 2 events.
//
//vrt:cover ZZRamBalance2 queued request granted later
//vrt:cover ZZRamBalance2 stopped with a request queued
func ZZRamBalance2() { zzRamBalance(2) }

func zzRamBalance(steps int) {
	info := metainfo.ZZConcreteInfo(zzPieceLen, zzPickPieces, []int64{zzPieceLen * zzPickPieces}, false)
	sto := &zzStorage{}
	t := zzNewTorrent(info, nil, sto)
	zzRamBudget = vrt.Choice("budget_pieces", 2) + 1
	t.session.ram = resourcemanager.New[*peer.Peer](int64(zzRamBudget) * zzPieceLen)
	zzGrants = make(chan *peer.Peer, 8)
	quit := make(chan struct{})
	go zzForwardGrants(t, quit)
	zzStartDownloading(t, sto)
	peers := []*peer.Peer{zzAddPeer(t, 1, false, zzPlainExt), zzAddPeer(t, 2, false, zzPlainExt)}
	if peers[0] == nil || peers[1] == nil {
		vrt.Assert(false, "peers not added")
		return
	}
	for _, pe := range peers {
		t.handlePeerMessage(peer.Message{Peer: pe, Message: peerprotocol.BitfieldMessage{Data: []byte{0xe0}}})
		t.handlePeerMessage(peer.Message{Peer: pe, Message: peerprotocol.UnchokeMessage{}})
		zzDrainGrants(t)
		zzRamInv(t)
	}
	vrt.Cover(len(t.pieceDownloaders) == 1 && zzRamBudget == 1, "request queued at the budget")
	for step := 0; step < steps; step++ {
		pe := peers[vrt.Choice("peer", 2)]
		switch vrt.Choice("event", 4) {
		case 0:
			pd, ok := t.pieceDownloaders[pe]
			vrt.Assume(ok && !pe.Closed)
			buf := t.piecePool.Get(zzPieceLen)
			t.handlePieceMessage(peer.PieceMessage{Peer: pe, Piece: peerreader.Piece{PieceMessage: peerprotocol.PieceMessage{Index: pd.Piece.Index, Begin: 0}, Buffer: buf}})
			zzDrainGrants(t)
			zzRamInv(t)
			pw := piecewriter.New(pd.Piece, pe, pd.Buffer)
			pw.HashOK = vrt.Bool("hash_ok")
			t.handlePieceWriteDone(pw)
		case 1:
			vrt.Assume(!pe.Closed)
			t.closePeer(pe)
		case 2:
			vrt.Assume(!pe.Closed)
			t.handlePeerMessage(peer.Message{Peer: pe, Message: peerprotocol.ChokeMessage{}})
		case 3:
			vrt.Assume(t.status() == Downloading)
			vrt.Cover(t.session.ram.Stats().PendingKeys > 0, "stopped with a request queued")
			t.stop(nil)
		}
		zzDrainGrants(t)
		zzRamInv(t)
		if st := t.status(); st == Stopping || st == Stopped {
			vrt.Assert(t.session.ram.Stats().AllocatedSize == 0, "piece memory still reserved by a stopped torrent")
		}
	}
	close(quit)
	t.session.ram.Close()
}
