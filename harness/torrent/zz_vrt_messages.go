package torrent

import (
	"github.com/cenkalti/rain/v2/internal/bufferpool"
	"github.com/cenkalti/rain/v2/internal/metainfo"
	"github.com/cenkalti/rain/v2/internal/peer"
	"github.com/cenkalti/rain/v2/internal/peerconn/peerreader"
	"github.com/cenkalti/rain/v2/internal/peerconn/peerwriter"
	"github.com/cenkalti/rain/v2/internal/peerprotocol"
	vrt "github.com/cenkalti/rain/v2/internal/zzvrt"
)

var zzFastExt = [8]byte{0, 0, 0, 0, 0, 0x10, 0, 0x04} // extension protocol + fast extension
var zzPlainExt = [8]byte{}

// zzDownloadingWithBits returns a Downloading 2-piece torrent whose pieces
// are Done/not Done arbitrarily (bitfield in step), plus its storage.
func zzDownloadingWithBits() (*torrent, *zzStorage) {
	return zzDownloadingWithBitsLen(zzPieceLen * zzNumPieces)
}

// zzDownloadingWithBitsLen: total length may make the last piece shorter.
func zzDownloadingWithBitsLen(total int64) (*torrent, *zzStorage) {
	info := metainfo.ZZConcreteInfo(zzPieceLen, zzNumPieces, []int64{total}, false)
	sto := &zzStorage{}
	t := zzNewTorrent(info, nil, sto)
	zzStartDownloading(t, sto)
	for i := range t.pieces {
		if vrt.Bool("piece_done") {
			t.pieces[i].Done = true
			t.bitfield.Set(uint32(i))
		}
	}
	return t, sto
}

// ZZRequestStep: a request message with arbitrary 32-bit fields, in every
// combination of piece present / choking / fast extension / allowed-fast
// membership: piece data is queued only for an in-bounds, non-empty request
// of a piece we have, to a peer we are not choking (or for an allowed-fast
// piece), and the queued request is the received one; out-of-range requests
// close the peer.
//
//vrt:cover ZZRequestStep served
//vrt:cover ZZRequestStep served while choking (allowed fast)
//vrt:cover ZZRequestStep rejected out of bounds
func ZZRequestStep() { zzRequestStep(zzPieceLen * zzNumPieces) }

// ZZRequestStepShortLast: the same with a last piece of 8192+5 bytes.
//
//vrt:cover ZZRequestStepShortLast served
//vrt:cover ZZRequestStepShortLast rejected beyond the short last piece
func ZZRequestStepShortLast() { zzRequestStep(zzPieceLen + 8197) }

func zzRequestStep(total int64) {
	t, _ := zzDownloadingWithBitsLen(total)
	ext := zzPlainExt
	if vrt.Bool("peer_fast_extension") {
		ext = zzFastExt
	}
	pe := zzAddPeer(t, 1, true, ext)
	other := zzAddPeer(t, 2, true, zzPlainExt)
	vrt.Assert(pe != nil && other != nil, "peers not added")
	if pe == nil || other == nil {
		return
	}
	pe.ClientChoking = vrt.Bool("client_choking")
	for i := range t.pieces {
		if vrt.Bool("sent_allowed_fast") {
			pe.SentAllowedFast.Add(&t.pieces[i])
		}
		// the peer's own grants to us (its allowed-fast messages) are unrelated
		if pe.FastEnabled && vrt.Bool("peer_granted_us_allowed_fast") {
			t.handlePeerMessage(peer.Message{Peer: pe, Message: peerprotocol.AllowedFastMessage{HaveMessage: peerprotocol.HaveMessage{Index: uint32(i)}}})
		}
	}
	idx, begin, length := vrt.U32("index"), vrt.U32("begin"), vrt.U32("length")
	from := len(zzSentLog)
	t.handlePeerMessage(peer.Message{Peer: pe, Message: peerprotocol.RequestMessage{Index: idx, Begin: begin, Length: length}})
	var plen uint32
	if idx < zzNumPieces {
		plen = t.pieces[idx].Length
		vrt.Assert((idx == zzNumPieces-1 && int64(plen) == total-zzPieceLen*(zzNumPieces-1)) || (idx < zzNumPieces-1 && plen == zzPieceLen), "fixture piece length wrong")
	}
	inRange := idx < zzNumPieces && length != 0 && begin <= plen && length <= plen-begin
	vrt.Cover(idx == zzNumPieces-1 && !inRange && length != 0 && begin <= zzPieceLen && length <= zzPieceLen-begin, "rejected beyond the short last piece")
	served := 0
	for _, s := range zzSentTo(pe, from) {
		if s.piece != nil {
			served++
			vrt.Assert(inRange, "data queued for an out-of-bounds or empty request")
			vrt.Assert(s.piece.Index == idx && s.piece.Begin == begin && s.piece.Length == length, "queued piece differs from the request")
			if inRange {
				vrt.Assert(t.pieces[idx].Done, "data queued for a piece we do not have")
				allowed := pe.FastEnabled && pe.SentAllowedFast.Has(&t.pieces[idx])
				vrt.Assert(!pe.ClientChoking || allowed, "data queued for a choked peer without allowed-fast")
				vrt.Cover(pe.ClientChoking, "served while choking (allowed fast)")
			}
		}
	}
	vrt.Assert(served <= 1, "request answered more than once")
	vrt.Cover(served == 1, "served")
	if !inRange {
		vrt.Cover(true, "rejected out of bounds")
		vrt.Assert(pe.Closed, "peer not dropped after an out-of-bounds request")
	}
	vrt.Assert(!other.Closed, "another peer was dropped")
	if inRange && t.pieces[idx].Done && !pe.ClientChoking {
		vrt.Assert(served == 1, "valid request from an unchoked peer not served")
	}
	if inRange && t.pieces[idx].Done && pe.ClientChoking && pe.FastEnabled && pe.SentAllowedFast.Has(&t.pieces[idx]) {
		vrt.Assert(served == 1, "request for a piece granted as allowed-fast not served")
	}
}

func zzU32Triple() (uint32, uint32, uint32) {
	return vrt.U32("index"), vrt.U32("begin"), vrt.U32("length")
}

// zzAnyMessage returns an arbitrary message of one of the kinds the reader can deliver.
func zzAnyMessage() any {
	switch vrt.Choice("message_kind", 18) {
	case 0:
		return peerprotocol.HaveMessage{Index: vrt.U32("index")}
	case 1:
		return peerprotocol.BitfieldMessage{Data: vrt.Bytes("bitfield", vrt.Choice("bitfield_len", 3))}
	case 2:
		return peerprotocol.HaveAllMessage{}
	case 3:
		return peerprotocol.HaveNoneMessage{}
	case 4:
		return peerprotocol.AllowedFastMessage{HaveMessage: peerprotocol.HaveMessage{Index: vrt.U32("index")}}
	case 5:
		return peerprotocol.UnchokeMessage{}
	case 6:
		return peerprotocol.ChokeMessage{}
	case 7:
		return peerprotocol.InterestedMessage{}
	case 8:
		return peerprotocol.NotInterestedMessage{}
	case 9:
		i, b, l := zzU32Triple()
		return peerprotocol.RequestMessage{Index: i, Begin: b, Length: l}
	case 10:
		i, b, l := zzU32Triple()
		return peerprotocol.RejectMessage{RequestMessage: peerprotocol.RequestMessage{Index: i, Begin: b, Length: l}}
	case 11:
		i, b, l := zzU32Triple()
		return peerprotocol.CancelMessage{RequestMessage: peerprotocol.RequestMessage{Index: i, Begin: b, Length: l}}
	case 12:
		return peerprotocol.PortMessage{Port: vrt.U16("port")}
	case 13:
		return peerwriter.BlockUploaded{Length: vrt.U32("uploaded")}
	case 14:
		m := map[string]uint8{}
		if vrt.Bool("offers_metadata") {
			m["ut_metadata"] = vrt.U8("metadata_id")
		}
		if vrt.Bool("offers_pex") {
			m["ut_pex"] = vrt.U8("pex_id")
		}
		hs := peerprotocol.ExtensionHandshakeMessage{M: m, V: "x", MetadataSize: vrt.Int("metadata_size"), RequestQueue: vrt.Int("reqq")}
		if vrt.Bool("yourip_present") {
			hs.YourIP = string(vrt.Bytes("yourip", 4))
		}
		vrt.Assume(hs.MetadataSize >= 0 && hs.RequestQueue >= 0) // the decoder clamps negatives
		vrt.Assume(hs.MetadataSize <= 3*16384)                   // bound: at most 3 metadata blocks
		return hs
	case 15:
		return peerprotocol.ExtensionMetadataMessage{Type: vrt.Choice("metadata_msg_type", 4), Piece: vrt.U32("metadata_piece"), TotalSize: vrt.Int("total_size"), Data: vrt.Bytes("metadata_data", vrt.Choice("metadata_data_len", 3))}
	case 16:
		return peerprotocol.ExtensionPEXMessage{Added: string(vrt.Bytes("pex_added", vrt.Choice("added_len", 8))), Dropped: string(vrt.Bytes("pex_dropped", vrt.Choice("dropped_len", 8)))}
	}
	return nil // 17: a piece message, delivered through handlePieceMessage
}

// zzDeliver hands one arbitrary message from pe to the torrent.
func zzDeliver(t *torrent, pe *peer.Peer) {
	m := zzAnyMessage()
	if m == nil {
		n := vrt.Choice("block_len", 3)
		pool := bufferpool.New(16)
		buf := pool.Get(n)
		t.handlePieceMessage(peer.PieceMessage{Peer: pe, Piece: peerreader.Piece{PieceMessage: peerprotocol.PieceMessage{Index: vrt.U32("index"), Begin: vrt.U32("begin")}, Buffer: buf}})
		return
	}
	t.handlePeerMessage(peer.Message{Peer: pe, Message: m})
}

// ZZMessageTotal: any single message with arbitrary field values from a
// connected peer, in each torrent state (metadata unknown / allocating /
// downloading / stopping): the client does not panic or crash, drops at most
// the sender, and leaves the other peer alone.
//
//vrt:cover ZZMessageTotal sender dropped
//vrt:cover ZZMessageTotal metadata unknown
//vrt:cover ZZMessageTotal stopping
func ZZMessageTotal() {
	var t *torrent
	sto := &zzStorage{}
	state := vrt.Choice("torrent_state", 4)
	switch state {
	case 0: // magnet: metadata unknown
		t = zzNewTorrent(nil, nil, sto)
		t.start()
		vrt.Cover(t.status() == DownloadingMetadata, "metadata unknown")
	case 1: // allocating
		info := metainfo.ZZConcreteInfo(zzPieceLen, zzNumPieces, []int64{zzPieceLen * zzNumPieces}, false)
		t = zzNewTorrent(info, nil, sto)
		t.start()
	default:
		t, sto = zzDownloadingWithBits()
	}
	ext := zzPlainExt
	if vrt.Bool("peer_fast_extension") {
		ext = zzFastExt
	}
	pe := zzAddPeer(t, 1, true, ext)
	other := zzAddPeer(t, 2, false, zzPlainExt)
	vrt.Assert(pe != nil && other != nil, "peers not added")
	if pe == nil || other == nil {
		return
	}
	if state == 3 {
		t.stop(nil)
		vrt.Cover(t.status() == Stopping, "stopping")
	}
	before := t.status()
	zzDeliver(t, pe)
	vrt.Cover(pe.Closed && state != 3, "sender dropped")
	if state != 3 {
		vrt.Assert(!other.Closed, "a peer's message dropped another peer")
		_, still := t.peers[other]
		vrt.Assert(still, "a peer's message removed another peer")
		st := t.status()
		vrt.Assert(st == before || (before == DownloadingMetadata && (st == Allocating || st == Stopping)), "a peer's message changed the torrent's state")
	}
}

// ZZMessageTwo: two arbitrary messages in a row from the same peer while downloading.
func ZZMessageTwo() {
	t, _ := zzDownloadingWithBits()
	pe := zzAddPeer(t, 1, true, zzFastExt)
	other := zzAddPeer(t, 2, false, zzPlainExt)
	if pe == nil || other == nil {
		return
	}
	zzDeliver(t, pe)
	zzDeliver(t, pe)
	vrt.Assert(!other.Closed, "a peer's messages dropped another peer")
	vrt.Assert(t.status() == Downloading, "a peer's messages changed the torrent's state")
}

// ZZMetadataSizeCap: a magnet torrent (metadata unknown) receives an extension
// handshake announcing an arbitrary 64-bit metadata size: a metadata fetch is
// started from that peer only if the size is positive, within the configured
// maximum (set to 3 blocks here), and ut_metadata is offered; the buffer
// allocated is exactly the announced size.
//
//vrt:cover ZZMetadataSizeCap fetch started
//vrt:cover ZZMetadataSizeCap oversized refused
func ZZMetadataSizeCap() {
	sto := &zzStorage{}
	t := zzNewTorrent(nil, nil, sto)
	t.session.config.MaxMetadataSize = 3 * 16384
	t.start()
	vrt.Assert(t.status() == DownloadingMetadata, "fixture is not downloading metadata")
	pe := zzAddPeer(t, 1, false, zzFastExt)
	if pe == nil {
		return
	}
	size := vrt.Int("announced_metadata_size")
	vrt.Assume(size >= 0) // the decoder clamps negatives to zero
	m := map[string]uint8{}
	offers := vrt.Bool("offers_metadata")
	if offers {
		m["ut_metadata"] = 3
	}
	hs := peerprotocol.ExtensionHandshakeMessage{M: m, V: "x", MetadataSize: size}
	t.handlePeerMessage(peer.Message{Peer: pe, Message: hs})
	id, started := t.infoDownloaders[pe]
	if started {
		vrt.Cover(true, "fetch started")
		vrt.Assert(offers && size > 0 && size <= 3*16384, "metadata fetch started for an absent, empty or oversized metadata announcement")
		vrt.Assert(len(id.Bytes) == size, "metadata buffer differs from the announced size")
	} else {
		vrt.Cover(size > 3*16384, "oversized refused")
		vrt.Assert(!(offers && size > 0 && size <= 3*16384), "eligible peer not used for the metadata fetch")
	}
}
