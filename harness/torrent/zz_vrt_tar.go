package torrent

import (
	"archive/tar"
	"io"
	"os"
	"strings"

	vrt "github.com/cenkalti/rain/v2/internal/zzvrt"
)

var (
	zzTarNames   []string
	zzTarIdx     int
	zzTarTouched []string
)

// The tar parser is replaced by "one header with an arbitrary name, then EOF".
//
//vrt:replace (*archive/tar.Reader).Next github.com/cenkalti/rain/v2/torrent.zzTarNext ZZTarConfined
func zzTarNext(tr *tar.Reader) (*tar.Header, error) {
	if zzTarIdx >= len(zzTarNames) {
		return nil, io.EOF
	}
	h := &tar.Header{Name: zzTarNames[zzTarIdx]}
	zzTarIdx++
	return h, nil
}

//vrt:replace os.MkdirAll github.com/cenkalti/rain/v2/torrent.zzTarMkdirAll ZZTarConfined
func zzTarMkdirAll(path string, perm os.FileMode) error {
	zzTarTouched = append(zzTarTouched, path)
	return nil
}

//vrt:replace github.com/cenkalti/rain/v2/torrent.writeFile github.com/cenkalti/rain/v2/torrent.zzTarWriteFile ZZTarConfined
func zzTarWriteFile(name string, r io.Reader) error {
	zzTarTouched = append(zzTarTouched, name)
	return nil
}

// ZZTarConfined: whatever entry name an archive received from another session
// carries (<= 5 arbitrary ASCII bytes), nothing is created outside the
// destination directory.
//
//vrt:cover ZZTarConfined entry rejected
//vrt:cover ZZTarConfined entry extracted
func ZZTarConfined() {
	n := vrt.Choice("entry_name_len", 6)
	name := vrt.String("entry_name", n)
	for i := 0; i < len(name); i++ {
		vrt.Assume(name[i] < 0x80)
	}
	zzTarNames = []string{name}
	zzTarIdx = 0
	zzTarTouched = nil
	const dir = "/d/x"
	err := readData(strings.NewReader(""), dir, 0o750)
	if err != nil {
		vrt.Cover(true, "entry rejected")
		vrt.Assert(len(zzTarTouched) == 0, "rejected entry touched the file system")
		return
	}
	vrt.Cover(len(zzTarTouched) > 0, "entry extracted")
	for _, p := range zzTarTouched {
		ok := p == dir || strings.HasPrefix(p, dir+"/")
		vrt.Assert(ok, "archive entry extracted outside the destination directory")
		for _, c := range strings.Split(p, "/") {
			vrt.Assert(c != "..", "extracted path contains a dot-dot component")
		}
	}
}
