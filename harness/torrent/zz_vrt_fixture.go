package torrent

import (
	"net"
	"time"

	"github.com/cenkalti/rain/v2/internal/bitfield"
	"github.com/cenkalti/rain/v2/internal/metainfo"
	"github.com/cenkalti/rain/v2/internal/resumer"
	"github.com/cenkalti/rain/v2/internal/resumer/boltdbresumer"
	"github.com/cenkalti/rain/v2/internal/semaphore"
	"github.com/cenkalti/rain/v2/internal/storage"
	vrt "github.com/cenkalti/rain/v2/internal/zzvrt"
	"github.com/rcrowley/go-metrics"
)

//vrt:use internal/metainfo

// ---- environment recorders shared by the torrent-level harnesses ----

type zzEvent struct {
	kind string
	data []byte
}

var (
	zzLog          []zzEvent
	zzResumerFails bool
	zzAcceptors    int
)

//vrt:replace github.com/cenkalti/rain/v2/torrent.crash github.com/cenkalti/rain/v2/torrent.zzCrash
func zzCrash(torrentID string, msg string) { panic("CRASH: " + msg) }

//vrt:replace github.com/cenkalti/rain/v2/internal/externalip.FirstExternalIP github.com/cenkalti/rain/v2/torrent.zzFirstExternalIP
func zzFirstExternalIP() net.IP { return nil }

//vrt:replace (*github.com/cenkalti/rain/v2/torrent.torrent).startAcceptor github.com/cenkalti/rain/v2/torrent.zzStartAcceptor
func zzStartAcceptor(t *torrent) { zzAcceptors++ }

func zzPersist(kind string, data []byte) error {
	zzLog = append(zzLog, zzEvent{kind, append([]byte(nil), data...)})
	if zzResumerFails {
		return vrt.ErrIO
	}
	return nil
}

//vrt:replace (*github.com/cenkalti/rain/v2/internal/resumer/boltdbresumer.Resumer).WriteBitfield github.com/cenkalti/rain/v2/torrent.zzWriteBitfield
func zzWriteBitfield(r *boltdbresumer.Resumer, id string, value []byte) error {
	return zzPersist("bitfield", value)
}

//vrt:replace (*github.com/cenkalti/rain/v2/internal/resumer/boltdbresumer.Resumer).WriteInfo github.com/cenkalti/rain/v2/torrent.zzWriteInfo
func zzWriteInfo(r *boltdbresumer.Resumer, id string, value []byte) error {
	return zzPersist("info", nil)
}

//vrt:replace (*github.com/cenkalti/rain/v2/internal/resumer/boltdbresumer.Resumer).HandleStopAfterDownload github.com/cenkalti/rain/v2/torrent.zzHandleStopAfterDownload
func zzHandleStopAfterDownload(r *boltdbresumer.Resumer, id string) error {
	return zzPersist("stop-after-download", nil)
}

//vrt:replace (*github.com/cenkalti/rain/v2/internal/resumer/boltdbresumer.Resumer).HandleStopAfterMetadata github.com/cenkalti/rain/v2/torrent.zzHandleStopAfterMetadata
func zzHandleStopAfterMetadata(r *boltdbresumer.Resumer, id string) error {
	return zzPersist("stop-after-metadata", nil)
}

//vrt:replace (*github.com/cenkalti/rain/v2/internal/resumer/boltdbresumer.Resumer).WriteCompleteCmdRun github.com/cenkalti/rain/v2/torrent.zzWriteCompleteCmdRun
func zzWriteCompleteCmdRun(r *boltdbresumer.Resumer, id string) error {
	return zzPersist("complete-cmd-run", nil)
}

// zzStorage hands out in-memory files and records them.
type zzStorage struct {
	files  []*vrt.MemFile
	exists bool
	fail   bool
}

func (s *zzStorage) Open(name string, size int64) (storage.File, bool, error) {
	if s.fail {
		return nil, false, vrt.ErrIO
	}
	f := &vrt.MemFile{Data: make([]byte, size)}
	s.files = append(s.files, f)
	return f, s.exists, nil
}

func (s *zzStorage) RootDir() string { return "/d/t" }

func zzSession() *Session {
	s := &Session{config: DefaultConfig}
	s.metrics = &sessionMetrics{session: s, Peers: metrics.NewCounter(), SpeedDownload: metrics.NilMeter{}, SpeedUpload: metrics.NilMeter{}}
	s.semWrite = semaphore.New(1)
	return s
}

const (
	zzPieceLen  = 16384
	zzNumPieces = 2
)

// zzNewTorrent builds a torrent through the real constructor (its event loop
// is not started: harnesses call the handlers the loop would call).
func zzNewTorrent(info *metainfo.Info, bf *bitfield.Bitfield, sto storage.Storage) *torrent {
	zzLog = nil
	zzAcceptors = 0
	zzResumerFails = false
	s := zzSession()
	var ih []byte
	if info != nil {
		ih = info.Hash[:]
	} else {
		ih = vrt.Bytes("info_hash", 20)
	}
	t, err := newTorrent(s, "tid", time.Time{}, ih, sto, "name", 5000, nil, nil, info, bf, resumer.Stats{}, nil, false, false, false, false)
	if err != nil {
		panic("zz: newTorrent: " + err.Error())
	}
	return t
}

func zzChanClosed(c chan struct{}) bool {
	select {
	case <-c:
		return true
	default:
		return false
	}
}
