package torrent

import (
	"io"
	"net"
	"time"

	"github.com/cenkalti/rain/v2/internal/allocator"
	"github.com/cenkalti/rain/v2/internal/announcer"
	"github.com/cenkalti/rain/v2/internal/bitfield"
	"github.com/cenkalti/rain/v2/internal/metainfo"
	"github.com/cenkalti/rain/v2/internal/peer"
	"github.com/cenkalti/rain/v2/internal/peerconn"
	"github.com/cenkalti/rain/v2/internal/peerprotocol"
	"github.com/cenkalti/rain/v2/internal/peersource"
	"github.com/cenkalti/rain/v2/internal/resumer"
	"github.com/cenkalti/rain/v2/internal/resumer/boltdbresumer"
	"github.com/cenkalti/rain/v2/internal/semaphore"
	"github.com/cenkalti/rain/v2/internal/storage"
	vrt "github.com/cenkalti/rain/v2/internal/zzvrt"
	"github.com/nictuku/dht"
	"github.com/rcrowley/go-metrics"
)

//vrt:use internal/metainfo

// ---- environment recorders shared by the torrent-level harnesses ----

type zzEvent struct {
	kind string
	data []byte
}

var (
	zzLog          []zzEvent
	zzResumerFails bool
	zzAcceptors    int
)

//vrt:replace github.com/cenkalti/rain/v2/torrent.crash github.com/cenkalti/rain/v2/torrent.zzCrash
func zzCrash(torrentID string, msg string) { panic("CRASH: " + msg) }

//vrt:replace github.com/cenkalti/rain/v2/internal/externalip.FirstExternalIP github.com/cenkalti/rain/v2/torrent.zzFirstExternalIP
func zzFirstExternalIP() net.IP { return nil }

//vrt:replace (*github.com/cenkalti/rain/v2/torrent.torrent).startAcceptor github.com/cenkalti/rain/v2/torrent.zzStartAcceptor
func zzStartAcceptor(t *torrent) { zzAcceptors++ }

func zzPersist(kind string, data []byte) error {
	zzLog = append(zzLog, zzEvent{kind, append([]byte(nil), data...)})
	if zzResumerFails {
		return vrt.ErrIO
	}
	return nil
}

//vrt:replace (*github.com/cenkalti/rain/v2/internal/resumer/boltdbresumer.Resumer).WriteBitfield github.com/cenkalti/rain/v2/torrent.zzWriteBitfield
func zzWriteBitfield(r *boltdbresumer.Resumer, id string, value []byte) error {
	return zzPersist("bitfield", value)
}

//vrt:replace (*github.com/cenkalti/rain/v2/internal/resumer/boltdbresumer.Resumer).WriteInfo github.com/cenkalti/rain/v2/torrent.zzWriteInfo
func zzWriteInfo(r *boltdbresumer.Resumer, id string, value []byte) error {
	return zzPersist("info", nil)
}

//vrt:replace (*github.com/cenkalti/rain/v2/internal/resumer/boltdbresumer.Resumer).HandleStopAfterDownload github.com/cenkalti/rain/v2/torrent.zzHandleStopAfterDownload
func zzHandleStopAfterDownload(r *boltdbresumer.Resumer, id string) error {
	return zzPersist("stop-after-download", nil)
}

//vrt:replace (*github.com/cenkalti/rain/v2/internal/resumer/boltdbresumer.Resumer).HandleStopAfterMetadata github.com/cenkalti/rain/v2/torrent.zzHandleStopAfterMetadata
func zzHandleStopAfterMetadata(r *boltdbresumer.Resumer, id string) error {
	return zzPersist("stop-after-metadata", nil)
}

//vrt:replace (*github.com/cenkalti/rain/v2/internal/resumer/boltdbresumer.Resumer).WriteCompleteCmdRun github.com/cenkalti/rain/v2/torrent.zzWriteCompleteCmdRun
func zzWriteCompleteCmdRun(r *boltdbresumer.Resumer, id string) error {
	return zzPersist("complete-cmd-run", nil)
}

// zzStorage hands out in-memory files and records them.
type zzStorage struct {
	files  []*vrt.MemFile
	exists bool
	fail   bool
}

func (s *zzStorage) Open(name string, size int64) (storage.File, bool, error) {
	if s.fail {
		return nil, false, vrt.ErrIO
	}
	f := &vrt.MemFile{Data: make([]byte, size)}
	s.files = append(s.files, f)
	return f, s.exists, nil
}

func (s *zzStorage) RootDir() string { return "/d/t" }

func zzSession() *Session {
	s := &Session{config: DefaultConfig}
	s.config.AllowedFastSet = 0 // allowed-fast set generation (SHA-1 chain) is outside the fixture
	s.metrics = &sessionMetrics{session: s, Peers: metrics.NewCounter(), SpeedDownload: metrics.NilMeter{}, SpeedUpload: metrics.NilMeter{}}
	s.semWrite = semaphore.New(1)
	return s
}

const (
	zzPieceLen  = 16384
	zzNumPieces = 2
)

// zzNewTorrent builds a torrent through the real constructor (its event loop
// is not started: harnesses call the handlers the loop would call).
func zzNewTorrent(info *metainfo.Info, bf *bitfield.Bitfield, sto storage.Storage) *torrent {
	zzLog = nil
	zzSentLog = nil
	zzDHTNodes = nil
	zzCancelled = nil
	zzAcceptors = 0
	zzResumerFails = false
	s := zzSession()
	var ih []byte
	if info != nil {
		ih = info.Hash[:]
	} else {
		ih = vrt.Bytes("info_hash", 20)
	}
	t, err := newTorrent(s, "tid", time.Time{}, ih, sto, "name", 5000, nil, nil, info, bf, resumer.Stats{}, nil, false, false, false, false)
	if err != nil {
		panic("zz: newTorrent: " + err.Error())
	}
	return t
}

func zzChanClosed(c chan struct{}) bool {
	select {
	case <-c:
		return true
	default:
		return false
	}
}

// ---- peers ----

type zzSent struct {
	conn  *peerconn.Conn
	msg   peerprotocol.Message
	piece *peerprotocol.RequestMessage // non-nil for SendPiece
	data  io.ReaderAt
}

var (
	zzSentLog   []zzSent
	zzDHTNodes  []string
	zzCancelled []peerprotocol.CancelMessage
)

// The writer goroutine of a peer connection is not running in handler-step
// harnesses: everything the torrent sends to a peer is recorded instead.
//
//vrt:replace (*github.com/cenkalti/rain/v2/internal/peerconn.Conn).SendMessage github.com/cenkalti/rain/v2/torrent.zzSendMessage
func zzSendMessage(c *peerconn.Conn, msg peerprotocol.Message) {
	zzSentLog = append(zzSentLog, zzSent{conn: c, msg: msg})
}

//vrt:replace (*github.com/cenkalti/rain/v2/internal/peerconn.Conn).SendPiece github.com/cenkalti/rain/v2/torrent.zzSendPiece
func zzSendPiece(c *peerconn.Conn, msg peerprotocol.RequestMessage, pi io.ReaderAt) {
	m := msg
	zzSentLog = append(zzSentLog, zzSent{conn: c, piece: &m, data: pi})
}

//vrt:replace (*github.com/cenkalti/rain/v2/internal/peerconn.Conn).CancelRequest github.com/cenkalti/rain/v2/torrent.zzCancelRequest
func zzCancelRequest(c *peerconn.Conn, msg peerprotocol.CancelMessage) {
	zzCancelled = append(zzCancelled, msg)
}

//vrt:replace (*github.com/nictuku/dht.DHT).AddNode github.com/cenkalti/rain/v2/torrent.zzDHTAddNode
func zzDHTAddNode(d *dht.DHT, addr string) { zzDHTNodes = append(zzDHTNodes, addr) }

// zzAddPeer connects a peer through the torrent's real startPeer (peer.New,
// first messages); ip is the last byte of its address 10.0.0.ip.
func zzAddPeer(t *torrent, ip byte, incoming bool, extensions [8]byte) *peer.Peer {
	conn := &vrt.Conn{Remote: &net.TCPAddr{IP: net.IP{10, 0, 0, ip}, Port: 6881}}
	var id [20]byte
	id[0] = ip
	before := make(map[*peer.Peer]struct{}, len(t.peers))
	for p := range t.peers {
		before[p] = struct{}{}
	}
	if incoming {
		t.startPeer(conn, peersource.Incoming, t.incomingPeers, id, extensions, 0)
	} else {
		t.startPeer(conn, peersource.Tracker, t.outgoingPeers, id, extensions, 0)
	}
	for p := range t.peers {
		if _, ok := before[p]; !ok {
			return p
		}
	}
	return nil
}

// zzSentTo returns what was sent to pe since index from.
func zzSentTo(pe *peer.Peer, from int) []zzSent {
	var out []zzSent
	for _, s := range zzSentLog[from:] {
		if s.conn == pe.Conn {
			out = append(out, s)
		}
	}
	return out
}

// zzStartDownloading drives a fresh torrent (with metadata) to the Downloading
// state through the real handlers: start, allocation done (new files), with an
// empty bitfield.
func zzStartDownloading(t *torrent, sto *zzStorage) {
	t.start()
	al := t.allocator
	al.HasMissing = true
	for _, f := range t.info.Files {
		sf, _, _ := sto.Open(f.Path, f.Length)
		al.Files = append(al.Files, allocator.File{Storage: sf, Name: f.Path, Padding: f.Padding})
	}
	t.handleAllocationDone(al)
}

// Announcers are not running in handler-step harnesses; "need more peers"
// signals (an unbuffered send to the announcer goroutine) are recorded.
var zzNeedMorePeers int

//vrt:replace (*github.com/cenkalti/rain/v2/internal/announcer.DHTAnnouncer).NeedMorePeers github.com/cenkalti/rain/v2/torrent.zzDHTNeedMorePeers
func zzDHTNeedMorePeers(a *announcer.DHTAnnouncer, val bool) { zzNeedMorePeers++ }

func metainfoConcrete() *metainfo.Info {
	return metainfo.ZZConcreteInfo(zzPieceLen, zzNumPieces, []int64{zzPieceLen * zzNumPieces}, false)
}

// zzSymbolicBitfield returns nil or a bitfield with arbitrary bits.
func zzSymbolicBitfield() *bitfield.Bitfield {
	if !vrt.Bool("resume_bitfield_present") {
		return nil
	}
	bf := bitfield.New(zzNumPieces)
	for i := uint32(0); i < zzNumPieces; i++ {
		if vrt.Bool("resume_bit") {
			bf.Set(i)
		}
	}
	return bf
}

func zzFillAllocation(t *torrent, sto *zzStorage) {
	al := t.allocator
	for _, f := range t.info.Files {
		sf, _, _ := sto.Open(f.Path, f.Length)
		al.Files = append(al.Files, allocator.File{Storage: sf, Name: f.Path, Padding: f.Padding})
	}
}
