package torrent

import (
	"github.com/cenkalti/rain/v2/internal/metainfo"
	"github.com/cenkalti/rain/v2/internal/peer"
	"github.com/cenkalti/rain/v2/internal/peerconn/peerreader"
	"github.com/cenkalti/rain/v2/internal/peerprotocol"
	"github.com/cenkalti/rain/v2/internal/piecewriter"
	vrt "github.com/cenkalti/rain/v2/internal/zzvrt"
)

const zzPickPieces = 3

// zzPickerChecks examines everything requested since zzSentLog[from] and the
// resulting download table against the statements of the piece-selection property.
func zzPickerChecks(t *torrent, peers []*peer.Peer, from int, sequential bool) {
	for _, s := range zzSentLog[from:] {
		rm, ok := s.msg.(peerprotocol.RequestMessage)
		if !ok {
			continue
		}
		var pe *peer.Peer
		for _, p := range peers {
			if p.Conn == s.conn {
				pe = p
			}
		}
		vrt.Assert(pe != nil && rm.Index < zzPickPieces, "request to an unknown peer or for an unknown piece")
		if pe == nil || rm.Index >= zzPickPieces {
			continue
		}
		pi := &t.pieces[rm.Index]
		vrt.Assert(!pi.Done && !pi.Writing, "requested a piece we already have or are writing")
		vrt.Assert(pe.Bitfield.Test(rm.Index), "requested a piece from a peer that does not have it")
		pd := t.pieceDownloaders[pe]
		vrt.Assert(pd != nil && pd.Piece.Index == rm.Index, "request outside the peer's single piece download")
		if pd != nil {
			vrt.Assert(!pe.PeerChoking || (pd.AllowedFast && pe.ReceivedAllowedFast.Has(pi)), "requested from a choking peer without allowed-fast")
		}
	}
	if t.status() != Downloading {
		return
	}
	limit := t.session.config.EndgameMaxDuplicateDownloads
	if limit < 1 {
		limit = 1
	}
	for i := uint32(0); i < zzPickPieces; i++ {
		n := 0
		for _, pd := range t.pieceDownloaders {
			if pd.Piece.Index == i {
				n++
			}
		}
		vrt.Assert(n <= limit, "more simultaneous downloads of one piece than the end-game limit")
		if n > 0 {
			vrt.Assert(!t.pieces[i].Done, "a piece we already have is still being downloaded")
		}
	}
	for _, pe := range peers {
		_, has := t.pieceDownloaders[pe]
		vrt.Assert(pe.Downloading == has, "peer's downloading flag differs from the download table")
		vrt.Assert(!pe.Closed || !has, "a closed peer still has a download")
	}
	// no starvation: an idle, unchoked, connected peer gets a request when it holds a needed piece
	// nobody downloads yet, or - once every needed piece is being downloaded by somebody (end
	// game) - when it holds a needed piece whose downloads are below the end-game limit
	allRequested := true
	for i := uint32(0); i < zzPickPieces; i++ {
		if t.pieces[i].Done || t.pieces[i].Writing {
			continue
		}
		n := 0
		for _, pd := range t.pieceDownloaders {
			if pd.Piece.Index == i {
				n++
			}
		}
		if n == 0 {
			allRequested = false
		}
	}
	for _, src := range t.webseedSources {
		if src.Downloader != nil {
			allRequested = false // the end-game clause is stated for peer downloads only
		}
	}
	for _, pe := range peers {
		if pe.Closed || pe.PeerChoking || pe.Downloading || pe.Bitfield == nil {
			continue
		}
		for i := uint32(0); i < zzPickPieces; i++ {
			if t.pieces[i].Done || t.pieces[i].Writing || !pe.Bitfield.Test(i) {
				continue
			}
			// the piece a web seed is fetching right now counts as requested
			// (later pieces of its range may be taken over by peers)
			byWebseed := false
			for _, src := range t.webseedSources {
				if src.Downloader != nil && src.Downloader.ReadCurrent() == i && i < src.Downloader.End {
					byWebseed = true
				}
			}
			if byWebseed {
				continue
			}
			n := 0
			for _, pd := range t.pieceDownloaders {
				if pd.Piece.Index == i {
					n++
				}
			}
			if n == 0 {
				vrt.Assert(false, "idle unchoked peer holding a needed, unrequested piece was left without a request")
			} else if allRequested && n < limit {
				vrt.Assert(false, "end game: idle unchoked peer holding a needed piece below the duplicate limit was left without a request")
			}
		}
	}
	if t.piecePicker != nil {
		var avail uint32
		for i := uint32(0); i < zzPickPieces; i++ {
			some := false
			for _, pe := range peers {
				if !pe.Closed && pe.Bitfield != nil && pe.Bitfield.Test(i) {
					some = true
				}
			}
			if some {
				avail++
			}
		}
		vrt.Assert(t.piecePicker.Available() == avail, "available piece count differs from the pieces held by connected peers")
	}
}

// zzLowestEligible is the index sequential mode must pick for an unchoked
// peer: an eligible file-edge piece first (pieces 0 and 2 of the single
// 3-piece file), else the lowest eligible index; -1 if none is eligible.
// Eligible: the peer has it, we neither have nor write it, nobody else downloads it.
func zzLowestEligible(t *torrent, pe *peer.Peer) int {
	best := -1
	for pass := 0; pass < 2 && best < 0; pass++ {
		for i := 0; i < zzPickPieces; i++ {
			edge := i == 0 || i == zzPickPieces-1
			if pass == 0 && !edge {
				continue
			}
			pi := &t.pieces[i]
			if pi.Done || pi.Writing || !pe.Bitfield.Test(uint32(i)) {
				continue
			}
			taken := false
			for other, pd := range t.pieceDownloaders {
				if other != pe && pd.Piece.Index == uint32(i) {
					taken = true
				}
			}
			if !taken && best < 0 {
				best = i
			}
		}
	}
	return best
}

func zzPickerSeq(steps int, sequential bool) { zzPickerRun(steps, sequential, false) }

func zzPickerRun(steps int, sequential, rich bool) {
	info := metainfo.ZZConcreteInfo(zzPieceLen, zzPickPieces, []int64{zzPieceLen * zzPickPieces}, false)
	sto := &zzStorage{}
	t := zzNewTorrent(info, nil, sto)
	t.sequential = sequential
	t.session.config.EndgameMaxDuplicateDownloads = vrt.Choice("endgame_limit", 2) + 1
	zzStartDownloading(t, sto)
	// arbitrary progress so far: some pieces already verified (not all: still downloading)
	ndone := 0
	for i := range t.pieces {
		if rich && vrt.Bool("piece_done") {
			t.pieces[i].Done = true
			t.bitfield.Set(uint32(i))
			ndone++
		}
	}
	vrt.Assume(ndone < zzPickPieces)
	peers := []*peer.Peer{zzAddPeer(t, 1, false, zzFastExt), zzAddPeer(t, 2, false, zzPlainExt)}
	vrt.Assert(peers[0] != nil && peers[1] != nil, "peers not added")
	if peers[0] == nil || peers[1] == nil {
		return
	}
	// each peer announces an arbitrary set of pieces with its first message and may unchoke us
	for _, pe := range peers {
		if !rich {
			break
		}
		from := len(zzSentLog)
		if pe.FastEnabled {
			// a fast-extension peer may have granted one allowed-fast piece
			if af := vrt.Choice("allowed_fast_piece", zzPickPieces+1); af < zzPickPieces {
				t.handlePeerMessage(peer.Message{Peer: pe, Message: peerprotocol.AllowedFastMessage{HaveMessage: peerprotocol.HaveMessage{Index: uint32(af)}}})
			}
		}
		bits := vrt.U8("peer_bitfield") & 0xe0
		t.handlePeerMessage(peer.Message{Peer: pe, Message: peerprotocol.BitfieldMessage{Data: []byte{bits}}})
		if vrt.Bool("peer_unchokes") {
			t.handlePeerMessage(peer.Message{Peer: pe, Message: peerprotocol.UnchokeMessage{}})
		}
		zzPickerChecks(t, peers, from, sequential)
	}
	for step := 0; step < steps; step++ {
		from := len(zzSentLog)
		pe := peers[vrt.Choice("peer", 2)]
		had := map[*peer.Peer]bool{}
		for p := range t.pieceDownloaders {
			had[p] = true
		}
		ev := 0
		if zzPickerScript != nil {
			ev = zzPickerScript[step]
		} else {
			ev = vrt.Choice("event", 7)
		}
		switch ev {
		case 0:
			vrt.Assume(!pe.Closed)
			t.handlePeerMessage(peer.Message{Peer: pe, Message: peerprotocol.HaveMessage{Index: uint32(vrt.Choice("piece", zzPickPieces))}})
		case 1:
			vrt.Assume(!pe.Closed)
			t.handlePeerMessage(peer.Message{Peer: pe, Message: peerprotocol.UnchokeMessage{}})
		case 2:
			vrt.Assume(!pe.Closed)
			t.handlePeerMessage(peer.Message{Peer: pe, Message: peerprotocol.ChokeMessage{}})
		case 3:
			vrt.Assume(!pe.Closed && pe.FastEnabled)
			t.handlePeerMessage(peer.Message{Peer: pe, Message: peerprotocol.AllowedFastMessage{HaveMessage: peerprotocol.HaveMessage{Index: uint32(vrt.Choice("piece", zzPickPieces))}}})
		case 4:
			vrt.Assume(!pe.Closed)
			t.handlePeerSnubbed(pe)
		case 5:
			vrt.Assume(!pe.Closed)
			t.closePeer(pe)
		case 6:
			// the peer delivers the whole piece it is downloading; the write completes (hash ok or not)
			pd, ok := t.pieceDownloaders[pe]
			vrt.Assume(ok && !pe.Closed)
			buf := t.piecePool.Get(zzPieceLen)
			t.handlePieceMessage(peer.PieceMessage{Peer: pe, Piece: peerreader.Piece{PieceMessage: peerprotocol.PieceMessage{Index: pd.Piece.Index, Begin: 0}, Buffer: buf}})
			vrt.Assert(pd.Piece.Writing, "complete piece not handed to the writer")
			zzPickerChecks(t, peers, from, sequential)
			from = len(zzSentLog)
			pw := piecewriter.New(pd.Piece, pe, pd.Buffer)
			pw.HashOK = vrt.Bool("hash_ok")
			t.handlePieceWriteDone(pw)
		}
		zzPickerChecks(t, peers, from, sequential)
		if sequential && t.status() == Downloading {
			for _, p := range peers {
				pd, ok := t.pieceDownloaders[p]
				if ok && !had[p] && !pd.AllowedFast && !p.PeerChoking {
					want := zzLowestEligible(t, p)
					if want >= 0 {
						vrt.Cover(true, "sequential pick checked")
						vrt.Assert(int(pd.Piece.Index) == want, "sequential mode did not pick the lowest eligible piece (file edges first)")
					}
				}
			}
		}
	}
	vrt.Cover(len(t.pieceDownloaders) == 2, "two downloads at once")
}

// ZZPickerSeq3: every sequence of 3 peer events (have, choke, unchoke,
// allowed-fast, snub, disconnect, piece completion with good or bad hash) on a
// downloading 3-piece torrent with 2 peers, rarest-first mode.
func ZZPickerSeq3() { zzPickerSeq(3, false) }

// ZZPickerSeq4: 4 events.
//
//vrt:cover ZZPickerSeq4 two downloads at once
func ZZPickerSeq4() { zzPickerSeq(4, false) }

// ZZPickerSequential4: 4 events in sequential mode (order check).
//
//vrt:cover ZZPickerSequential4 sequential pick checked
func ZZPickerSequential4() { zzPickerSeq(4, true) }

// ZZPickerSequential3: 3 events in sequential mode.
func ZZPickerSequential3() { zzPickerSeq(3, true) }

// ZZPickerRich1: arbitrary progress (pieces already verified), arbitrary
// bitfields and choke state for both peers, then 1 event.
func ZZPickerRich1() { zzPickerRun(1, false, true) }

// ZZPickerRich2: the same, then 2 events.
func ZZPickerRich2() { zzPickerRun(2, false, true) }

// ZZPickerRichSequential1: sequential mode.
func ZZPickerRichSequential1() { zzPickerRun(1, true, true) }

// ZZPickerRich0: the rich initial state alone (arbitrary progress, allowed-fast
// grant, bitfields, choke state), rarest-first.
func ZZPickerRich0() { zzPickerRun(0, false, true) }

// ZZPickerRich0Sequential: the same in sequential mode.
func ZZPickerRich0Sequential() { zzPickerRun(0, true, true) }

var zzPickerScript []int

// ZZPickerStalledThenIdle: the rich initial state, then one peer's download
// stalls (snub) and a peer completes its piece (hash ok or not) and asks for
// the next one - the situation in which stalled downloads and the end-game
// duplicate limit interact; which peer does what is arbitrary.
func ZZPickerStalledThenIdle() {
	zzPickerScript = []int{4, 6}
	zzPickerRun(2, false, true)
	zzPickerScript = nil
}

// ZZPickerChokedThenIdle: the same with a choke instead of the snub.
func ZZPickerChokedThenIdle() {
	zzPickerScript = []int{2, 6}
	zzPickerRun(2, false, true)
	zzPickerScript = nil
}
