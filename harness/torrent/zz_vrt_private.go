package torrent

import (
	"github.com/cenkalti/rain/v2/internal/metainfo"
	"github.com/cenkalti/rain/v2/internal/peer"
	"github.com/cenkalti/rain/v2/internal/peerprotocol"
	"github.com/cenkalti/rain/v2/internal/peersource"
	"github.com/cenkalti/rain/v2/internal/tracker"
	vrt "github.com/cenkalti/rain/v2/internal/zzvrt"
	"github.com/nictuku/dht"
)

// ZZPrivateNoLeak: a running torrent whose metainfo is private, for every
// combination of the PEX/DHT configuration switches and with a DHT node
// present or not, receives from a connected peer: an extension handshake
// advertising ut_pex and ut_metadata, a PEX message with an arbitrary address,
// a port message; and is handed DHT results. None of this may start a DHT
// announcer or a PEX sender, add a DHT node, or put an address into the dial
// list; the magnet link is not exported; identity strings are the private ones.
//
//vrt:cover ZZPrivateNoLeak pex enabled
//vrt:cover ZZPrivateNoLeak dht node present
func ZZPrivateNoLeak() {
	private := vrt.Bool("private")
	info := metainfo.ZZConcreteInfo(zzPieceLen, zzNumPieces, []int64{zzPieceLen * zzNumPieces}, private)
	sto := &zzStorage{}
	t := zzNewTorrent(info, nil, sto)
	t.session.config.PEXEnabled = vrt.Bool("pex_enabled")
	t.session.config.DHTEnabled = vrt.Bool("dht_enabled")
	if vrt.Bool("dht_node_present") {
		t.session.dht = &dht.DHT{}
		vrt.Cover(private, "dht node present")
	}
	vrt.Cover(private && t.session.config.PEXEnabled, "pex enabled")
	zzStartDownloading(t, sto)
	vrt.Assert(t.status() == Downloading, "fixture did not reach Downloading")
	if private {
		vrt.Assert(t.dhtAnnouncer == nil, "DHT announcer started for a private torrent")
	}
	var ext [8]byte
	ext[5] = 0x10 // extension protocol
	pe := zzAddPeer(t, 1, false, ext)
	vrt.Assert(pe != nil, "peer not added")
	if pe == nil {
		return
	}
	// extension handshake advertising PEX and metadata
	hs := peerprotocol.ExtensionHandshakeMessage{M: map[string]uint8{"ut_pex": 1, "ut_metadata": 2}, V: "x"}
	t.handlePeerMessage(peer.Message{Peer: pe, Message: hs})
	if private {
		vrt.Assert(pe.PEX == nil, "PEX sender started for a peer of a private torrent")
	}
	// PEX message with one arbitrary address
	added := vrt.Bytes("pex_added", 6)
	vrt.Assume(added[4] != 0 || added[5] != 0)    // port 0 is dropped anyway
	vrt.Assume(added[0] != 10 && added[0] != 127) // not an address we are connected to / loopback
	before := t.addrList.Len()
	dials := len(t.outgoingHandshakers)
	t.handlePeerMessage(peer.Message{Peer: pe, Message: peerprotocol.ExtensionPEXMessage{Added: string(added)}})
	if private {
		vrt.Assert(t.addrList.Len() == before && len(t.outgoingHandshakers) == dials, "address from a PEX message accepted by a private torrent")
	}
	// DHT results
	addrs, _ := tracker.DecodePeersCompact(vrt.Bytes("dht_peer", 6))
	before = t.addrList.Len()
	dials = len(t.outgoingHandshakers)
	if len(addrs) == 1 && addrs[0].Port != 0 && addrs[0].IP[0] != 10 && addrs[0].IP[0] != 127 {
		t.handleNewPeers(addrs, peersource.DHT)
		if private {
			vrt.Assert(t.addrList.Len() == before && len(t.outgoingHandshakers) == dials, "address from the DHT accepted by a private torrent")
		}
	}
	// port message
	t.handlePeerMessage(peer.Message{Peer: pe, Message: peerprotocol.PortMessage{Port: vrt.U16("dht_port")}})
	if private {
		vrt.Assert(len(zzDHTNodes) == 0, "DHT node added from a peer of a private torrent")
	}
	// magnet export
	_, err := t.Magnet()
	vrt.Assert((err != nil) == private, "magnet link exported iff the torrent is not private")
	// identity strings
	if private {
		vrt.Assert(t.getClientVersion() == t.session.config.PrivateExtensionHandshakeClientVersion, "public client version used for a private torrent")
		vrt.Assert(t.session.getTrackerUserAgent(info.Private) == t.session.config.TrackerHTTPPrivateUserAgent, "public user agent used for a private torrent")
		prefix := t.session.config.PrivatePeerIDPrefix
		for i := 0; i < len(prefix); i++ {
			vrt.Assert(t.peerID[i] == prefix[i], "peer id does not start with the private prefix")
		}
	} else {
		vrt.Assert(t.getClientVersion() == publicExtensionHandshakeClientVersion, "private client version used for a public torrent")
	}
}
