package torrent

import (
	vrt "github.com/cenkalti/rain/v2/internal/zzvrt"
)

// ZZValidPieceRequest: the request bounds check equals "length != 0 and
// begin+length <= pieceLength over the mathematical integers" for all 32-bit values.
//
//vrt:cover ZZValidPieceRequest accepted
//vrt:cover ZZValidPieceRequest begin+length wraps 32 bits
func ZZValidPieceRequest() {
	b, l, pl := vrt.U32("begin"), vrt.U32("length"), vrt.U32("piece_length")
	got := validPieceRequest(b, l, pl)
	want := l != 0 && b <= pl && l <= pl-b
	vrt.Cover(got, "accepted")
	vrt.Cover(b+l < b, "begin+length wraps 32 bits")
	vrt.Assert(got == want, "request bounds check differs from begin+length <= pieceLength")
}
