package torrent

import (
	"github.com/cenkalti/rain/v2/internal/allocator"
	"github.com/cenkalti/rain/v2/internal/bitfield"
	"github.com/cenkalti/rain/v2/internal/metainfo"
	vrt "github.com/cenkalti/rain/v2/internal/zzvrt"
)

// zzInv is the lifecycle invariant checked after every event.
func zzInv(t *torrent, sto *zzStorage) {
	st := t.status()
	if st == Seeding {
		vrt.Assert(t.bitfield != nil && t.bitfield.All(), "status is Seeding although not every piece is present")
	}
	vrt.Assert(t.completed == zzChanClosed(t.completeC), "completed flag and completion channel disagree")
	if st == Stopped || st == Stopping {
		vrt.Assert(len(t.peers) == 0 && len(t.pieceDownloaders) == 0 && len(t.infoDownloaders) == 0, "stopped torrent still has peers or downloads")
		vrt.Assert(t.files == nil && t.pieces == nil && t.piecePicker == nil, "stopped torrent still holds data files")
		vrt.Assert(t.allocator == nil && t.verifier == nil, "stopped torrent still has an allocator or verifier")
		for _, f := range sto.files {
			vrt.Assert(f.Closed <= 1, "a data file was closed twice")
		}
	}
	vrt.Assert(t.allocator == nil || t.verifier == nil, "allocator and verifier active at the same time")
	vrt.Assert(t.allocator == nil || t.pieces == nil, "allocator active while pieces exist")
	vrt.Assert((t.errC == nil) == (t.portC == nil), "error and port channels out of step")
	if (st == Downloading || st == Seeding) && t.pieces != nil && t.bitfield != nil {
		for i := range t.pieces {
			vrt.Assert(t.pieces[i].Done == t.bitfield.Test(uint32(i)), "piece Done flag differs from the bitfield")
		}
	}
	if st == Downloading || st == Seeding || st == DownloadingMetadata {
		vrt.Assert(!t.doVerify, "torrent is transferring although a verification request is pending")
	}
}

// zzMustStop: the last thing that happened to the torrent was a stop command
// or a fatal error, with no start or verify command since: the next time the
// stop sequence finishes, the torrent has to be Stopped (a stop that is undone
// by a pending verification request is a dropped command; an error that
// restarts the torrent over and over never ends).
var zzMustStop bool

// zzEventStep performs one event the loop could deliver in the current state.
func zzEventStep(t *torrent, sto *zzStorage) {
	switch vrt.Choice("event", 6) {
	case 0:
		vrt.Note("start")
		zzMustStop = false
		before := t.status()
		t.start()
		if before == Stopped {
			vrt.Assert(t.status() != Stopped, "start had no effect on a stopped torrent")
		}
		if before == Stopping {
			vrt.Cover(true, "start while stopping")
			st := t.status()
			vrt.Assert(st != Stopping && st != Stopped, "start request silently dropped while the torrent is stopping")
		}
	case 1:
		vrt.Note("stop")
		zzMustStop = true
		t.stop(nil)
		st := t.status()
		vrt.Assert(st == Stopping || st == Stopped, "stop did not stop the torrent")
	case 2:
		vrt.Note("verify")
		zzMustStop = false
		t.handleVerifyCommand()
	case 3:
		vrt.Assume(t.status() == Stopping)
		vrt.Note("stop announcer done")
		t.handleStopped()
		if zzMustStop {
			vrt.Cover(true, "stop sequence finished after a stop command or an error")
			vrt.Assert(t.status() == Stopped, "torrent restarted by itself after a stop command or a fatal error (pending verification request not cancelled)")
		}
	case 4:
		vrt.Assume(t.allocator != nil)
		vrt.Note("allocation done")
		al := t.allocator
		if vrt.Bool("allocation_error") {
			al.Error = vrt.ErrIO
			zzMustStop = true
		} else {
			al.HasExisting = vrt.Bool("has_existing")
			al.HasMissing = vrt.Bool("has_missing")
			vrt.Assume(al.HasExisting || al.HasMissing) // the torrent has at least one data file
			for _, f := range t.info.Files {
				sf, _, _ := sto.Open(f.Path, f.Length)
				al.Files = append(al.Files, allocator.File{Storage: sf, Name: f.Path, Padding: f.Padding})
			}
		}
		missing := al.Error == nil && al.HasMissing
		t.handleAllocationDone(al)
		if missing && t.pieces != nil && t.verifier == nil {
			for i := range t.pieces {
				vrt.Assert(!t.pieces[i].Done, "resume data trusted although a data file was missing at start")
			}
		}
	case 5:
		vrt.Assume(t.verifier != nil)
		vrt.Note("verification done")
		ve := t.verifier
		if vrt.Bool("verification_error") {
			ve.Error = vrt.ErrIO
			zzMustStop = true
		} else {
			ve.Bitfield = bitfield.New(zzNumPieces)
			for i := uint32(0); i < zzNumPieces; i++ {
				if vrt.Bool("piece_verifies") {
					ve.Bitfield.Set(i)
				}
			}
		}
		t.handleVerificationDone(ve)
	}
}

func zzLifecycle(steps int) {
	info := metainfo.ZZConcreteInfo(zzPieceLen, zzNumPieces, []int64{zzPieceLen * zzNumPieces}, false)
	var bf *bitfield.Bitfield
	if vrt.Bool("resume_bitfield_present") {
		bf = bitfield.New(zzNumPieces)
		for i := uint32(0); i < zzNumPieces; i++ {
			if vrt.Bool("resume_bit") {
				bf.Set(i)
			}
		}
	}
	sto := &zzStorage{}
	t := zzNewTorrent(info, bf, sto)
	zzMustStop = false
	zzInv(t, sto)
	for i := 0; i < steps; i++ {
		zzEventStep(t, sto)
		zzInv(t, sto)
	}
	vrt.Cover(t.status() == Seeding, "reached Seeding")
	vrt.Cover(t.status() == Verifying, "reached Verifying")
}

// ZZLifecycle4: every sequence of 4 lifecycle events (start, stop, verify,
// stop-announce done, allocation done, verification done with arbitrary
// results) from a freshly added torrent (2 pieces, resume bitfield arbitrary).
//
//vrt:cover ZZLifecycle4 reached Seeding
//vrt:cover ZZLifecycle4 start while stopping
func ZZLifecycle4() { zzLifecycle(4) }

// ZZLifecycle6: 6 events.
func ZZLifecycle6() { zzLifecycle(6) }

// ZZStopAfterDownloadOnce: a torrent added with the stop-after-download option
// (complete resume bitfield, or completing through verification): it stops by
// itself when the download is complete and the option is then cleared in the
// resume database - once. A later start command must take effect: the torrent
// seeds and does not stop by itself again, and the option is not cleared twice.
//
//vrt:cover ZZStopAfterDownloadOnce seeding after the second start
func ZZStopAfterDownloadOnce() {
	info := metainfo.ZZConcreteInfo(zzPieceLen, zzNumPieces, []int64{zzPieceLen * zzNumPieces}, false)
	bf := bitfield.New(zzNumPieces)
	bf.Set(0)
	bf.Set(1)
	sto := &zzStorage{}
	t := zzNewTorrent(info, bf, sto)
	t.stopAfterDownload = true
	countCleared := func() int {
		n := 0
		for _, l := range zzLog {
			if l.kind == "stop-after-download" {
				n++
			}
		}
		return n
	}
	for round := 0; round < 2; round++ {
		t.start()
		vrt.Assert(t.allocator != nil, "start did not begin allocation")
		if t.allocator == nil {
			return
		}
		al := t.allocator
		al.HasExisting = true
		for _, f := range t.info.Files {
			sf, _, _ := sto.Open(f.Path, f.Length)
			al.Files = append(al.Files, allocator.File{Storage: sf, Name: f.Path, Padding: f.Padding})
		}
		t.handleAllocationDone(al)
		if t.verifier != nil {
			ve := t.verifier
			ve.Bitfield = bitfield.New(zzNumPieces)
			ve.Bitfield.Set(0)
			ve.Bitfield.Set(1)
			t.handleVerificationDone(ve)
		}
		if round == 0 {
			vrt.Assert(t.status() == Stopping && countCleared() == 1, "complete torrent with stop-after-download did not stop by itself (once)")
			t.handleStopped()
			vrt.Assert(t.status() == Stopped, "not stopped")
		} else {
			vrt.Assert(countCleared() == 1, "stop-after-download cleared twice in the resume database")
			vrt.Cover(t.status() == Seeding, "seeding after the second start")
			vrt.Assert(t.status() == Seeding, "start command undone: the torrent stopped by itself again although stop-after-download was already consumed")
		}
	}
}

// zzAllocDone delivers the allocator's result: all files exist.
func zzAllocDone(t *torrent, sto *zzStorage) bool {
	if t.allocator == nil {
		return false
	}
	al := t.allocator
	al.HasExisting = true
	for _, f := range t.info.Files {
		sf, _, _ := sto.Open(f.Path, f.Length)
		al.Files = append(al.Files, allocator.File{Storage: sf, Name: f.Path, Padding: f.Padding})
	}
	t.handleAllocationDone(al)
	return true
}

// ZZVerifyFindsDamage: a complete, seeding torrent is verified by hand and the
// verification finds an arbitrary set of pieces (all, some, none): it ends
// stopped; started again it is Seeding only if every piece verified, otherwise
// Downloading with exactly the verified pieces marked done and the completion
// flag cleared.
//
//vrt:cover ZZVerifyFindsDamage verification found a damaged piece
//vrt:cover ZZVerifyFindsDamage verification found everything
func ZZVerifyFindsDamage() {
	info := metainfo.ZZConcreteInfo(zzPieceLen, zzNumPieces, []int64{zzPieceLen * zzNumPieces}, false)
	bf := bitfield.New(zzNumPieces)
	bf.Set(0)
	bf.Set(1)
	sto := &zzStorage{}
	t := zzNewTorrent(info, bf, sto)
	zzMustStop = false
	t.start()
	vrt.Assert(zzAllocDone(t, sto), "no allocation after start")
	vrt.Assert(t.status() == Seeding, "complete torrent is not seeding")
	zzInv(t, sto)
	t.handleVerifyCommand()
	zzInv(t, sto)
	vrt.Assert(t.status() == Stopping, "verify command did not stop the running torrent first")
	t.handleStopped()
	zzInv(t, sto)
	vrt.Assert(zzAllocDone(t, sto), "verification did not start with an allocation")
	zzInv(t, sto)
	vrt.Assert(t.verifier != nil, "no verifier started for a manual verification")
	if t.verifier == nil {
		return
	}
	ve := t.verifier
	ve.Bitfield = bitfield.New(zzNumPieces)
	found := 0
	for i := uint32(0); i < zzNumPieces; i++ {
		if vrt.Bool("piece_verifies") {
			ve.Bitfield.Set(i)
			found++
		}
	}
	vrt.Cover(found < zzNumPieces, "verification found a damaged piece")
	vrt.Cover(found == zzNumPieces, "verification found everything")
	t.handleVerificationDone(ve)
	zzInv(t, sto)
	vrt.Assert(t.status() == Stopping, "manual verification did not end with the torrent stopping")
	t.handleStopped()
	zzInv(t, sto)
	vrt.Assert(t.status() == Stopped, "manual verification did not end stopped")
	vrt.Assert(t.completed == (found == zzNumPieces), "completion flag after a manual verification differs from 'every piece verified'")
	// start again
	t.start()
	vrt.Assert(zzAllocDone(t, sto), "no allocation after the second start")
	if t.verifier != nil {
		v2 := t.verifier
		v2.Bitfield = bitfield.New(zzNumPieces)
		for i := uint32(0); i < zzNumPieces; i++ {
			if ve.Bitfield.Test(i) {
				v2.Bitfield.Set(i)
			}
		}
		t.handleVerificationDone(v2)
	}
	zzInv(t, sto)
	if found == zzNumPieces {
		vrt.Assert(t.status() == Seeding, "fully verified torrent is not seeding after start")
	} else {
		vrt.Assert(t.status() == Downloading, "torrent with a damaged piece does not download after start (reports Seeding or stays idle)")
	}
}
