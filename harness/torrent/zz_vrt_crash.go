package torrent

import (
	"github.com/cenkalti/rain/v2/internal/peer"
	"github.com/cenkalti/rain/v2/internal/peerconn/peerreader"
	"github.com/cenkalti/rain/v2/internal/peerprotocol"
	"github.com/cenkalti/rain/v2/internal/piecewriter"
	vrt "github.com/cenkalti/rain/v2/internal/zzvrt"
	"github.com/rcrowley/go-metrics"
)

// ZZCrashOrder: persisted progress never runs ahead of the data on disk.
// A downloading 2-piece torrent (arbitrary pieces already verified) receives
// complete pieces with arbitrary content from a peer; the REAL piece writer
// runs (hash check against the arbitrary recorded hash, write to the in-memory
// storage, which may fail), then the real write-done handler, then optionally
// stop. Storage writes and resume-database updates go into one effect log. For
// every crash instant - i.e. for every prefix of the log - the last persisted
// bitfield must claim only pieces that were verified before the run or whose
// complete, hash-checked data was written earlier in the log (a returned write
// is durable: data files are opened O_SYNC, checked by ZZOpenSync).
//
//vrt:cover ZZCrashOrder piece written and persisted
//vrt:cover ZZCrashOrder corrupt piece
//vrt:cover ZZCrashOrder write error
func ZZCrashOrder() {
	t, sto := zzDownloadingWithBits()
	var initial [zzNumPieces]bool
	for i := range t.pieces {
		initial[i] = t.pieces[i].Done
	}
	// effect log: storage writes interleaved with the persist events of zzLog
	written := [zzNumPieces]int{} // position in zzLog after which piece i is on disk (0 = not)
	for _, f := range sto.files {
		f.OnWrite = func(off int64, n int) {
			i := off / zzPieceLen
			vrt.Assert(off%zzPieceLen == 0 && n == zzPieceLen, "partial piece written")
			zzLog = append(zzLog, zzEvent{kind: "write"})
			written[i] = len(zzLog)
		}
	}
	pe := zzAddPeer(t, 1, false, zzPlainExt)
	if pe == nil {
		return
	}
	t.handlePeerMessage(peer.Message{Peer: pe, Message: peerprotocol.HaveAllMessage{}})
	t.handlePeerMessage(peer.Message{Peer: pe, Message: peerprotocol.UnchokeMessage{}})
	hashOK := [zzNumPieces]bool{}
	for round := 0; round < 2; round++ {
		pd, ok := t.pieceDownloaders[pe]
		if !ok || pe.Closed || t.status() != Downloading {
			break
		}
		idx := pd.Piece.Index
		buf := t.piecePool.Get(zzPieceLen)
		copy(buf.Data, vrt.Bytes("block_content", zzPieceLen))
		t.handlePieceMessage(peer.PieceMessage{Peer: pe, Piece: peerreader.Piece{PieceMessage: peerprotocol.PieceMessage{Index: idx, Begin: 0}, Buffer: buf}})
		vrt.Assert(pd.Piece.Writing, "complete piece not handed to the writer")
		for _, f := range sto.files {
			f.Fail = vrt.Bool("disk_write_fails")
		}
		pw := piecewriter.New(pd.Piece, pe, pd.Buffer)
		resultC := make(chan *piecewriter.PieceWriter, 1)
		pw.Run(resultC, t.doneC, metrics.NilMeter{}, metrics.NilMeter{}, t.session.semWrite)
		hashOK[idx] = pw.HashOK
		vrt.Cover(!pw.HashOK, "corrupt piece")
		vrt.Cover(pw.HashOK && pw.Error != nil, "write error")
		if !pw.HashOK {
			vrt.Assert(written[idx] == 0, "data written although the hash check failed")
		}
		t.handlePieceWriteDone(<-resultC)
		if t.bitfield != nil && t.bitfield.Test(idx) {
			vrt.Assert(pw.HashOK && pw.Error == nil && written[idx] > 0, "piece marked as present although it was not verified and written")
		}
	}
	if vrt.Bool("then_stop") {
		t.stop(nil)
	}
	// every prefix of the log = every crash instant
	for pos, ev := range zzLog {
		if ev.kind != "bitfield" {
			continue
		}
		for i := 0; i < zzNumPieces; i++ {
			claimed := len(ev.data) > 0 && ev.data[0]&(0x80>>uint(i)) != 0
			if claimed && !initial[i] {
				vrt.Cover(true, "piece written and persisted")
				vrt.Assert(written[i] > 0 && written[i] <= pos && hashOK[i], "resume data claims a piece whose verified data had not reached the disk yet")
			}
		}
	}
}

// ZZResumeTrust: at allocation time resume bits are trusted only when no file
// is missing; with all files missing the torrent starts from an empty
// bitfield; otherwise everything is re-verified.
//
//vrt:cover ZZResumeTrust resume trusted
//vrt:cover ZZResumeTrust re-verified
func ZZResumeTrust() {
	info := metainfoConcrete()
	bf := zzSymbolicBitfield()
	sto := &zzStorage{}
	t := zzNewTorrent(info, bf, sto)
	t.start()
	al := t.allocator
	al.HasExisting = vrt.Bool("has_existing")
	al.HasMissing = vrt.Bool("has_missing")
	vrt.Assume(al.HasExisting || al.HasMissing)
	zzFillAllocation(t, sto)
	t.handleAllocationDone(al)
	switch {
	case bf != nil && !al.HasMissing:
		vrt.Cover(true, "resume trusted")
		for i := range t.pieces {
			vrt.Assert(t.pieces[i].Done == bf.Test(uint32(i)), "resume bit not honoured although no file is missing")
		}
	case !al.HasExisting:
		vrt.Assert(t.verifier == nil && t.bitfield != nil && t.bitfield.Count() == 0, "missing files trusted: bitfield not empty")
		for i := range t.pieces {
			vrt.Assert(!t.pieces[i].Done, "piece marked present although all files were missing")
		}
	default:
		vrt.Cover(true, "re-verified")
		vrt.Assert(t.verifier != nil, "files partly missing but no verification started")
		for i := range t.pieces {
			vrt.Assert(!t.pieces[i].Done, "piece trusted before verification although a file was missing")
		}
	}
}
