package torrent

import (
	"net"
	"strings"
	"time"

	"github.com/cenkalti/rain/v2/internal/blocklist"
	"github.com/cenkalti/rain/v2/internal/handshaker/outgoinghandshaker"
	"github.com/cenkalti/rain/v2/internal/metainfo"
	"github.com/cenkalti/rain/v2/internal/peer"
	"github.com/cenkalti/rain/v2/internal/peerconn/peerreader"
	"github.com/cenkalti/rain/v2/internal/peerpriority"
	"github.com/cenkalti/rain/v2/internal/peerprotocol"
	"github.com/cenkalti/rain/v2/internal/peersource"
	"github.com/cenkalti/rain/v2/internal/piecewriter"
	"github.com/cenkalti/rain/v2/internal/resumer"
	vrt "github.com/cenkalti/rain/v2/internal/zzvrt"
)

var zzDialIPs = []net.IP{{10, 0, 0, 1}, {10, 0, 0, 2}, {10, 0, 1, 1}, {127, 0, 0, 1}}

// candidate addresses a tracker may return: two ports of one host, another
// host, a blocked host, the client's own listening address, a zero port
var zzDialAddrs = []net.TCPAddr{
	{IP: net.IP{10, 0, 0, 1}, Port: 7000}, {IP: net.IP{10, 0, 0, 1}, Port: 7001}, {IP: net.IP{10, 0, 0, 2}, Port: 7000},
	{IP: net.IP{10, 0, 1, 1}, Port: 7000}, {IP: net.IP{127, 0, 0, 1}, Port: zzListenPort}, {IP: net.IP{10, 0, 0, 2}, Port: 0},
}

const zzListenPort = 5000 // the port zzNewTorrent passes to newTorrent

// zzDialInv: the admission rules for outgoing connections, checked on the set
// of outgoing handshakes (one per dial) and peers after every event.
func zzDialInv(t *torrent, limit int, dialled map[*outgoinghandshaker.OutgoingHandshaker]bool, bannedBefore map[string]bool, connectedBefore map[string]bool) {
	vrt.Assert(len(t.outgoingHandshakers)+len(t.outgoingPeers) <= limit, "more outgoing connections than MaxPeerDial")
	seen := map[string]int{}
	for h := range t.outgoingHandshakers {
		ip := h.Addr.IP.String()
		seen[ip]++
		if dialled[h] {
			continue
		}
		// a dial made by this event
		dialled[h] = true
		vrt.Cover(true, "dialled")
		vrt.Assert(h.Addr.Port != 0, "dialled an address with port 0")
		vrt.Assert(!(h.Addr.IP.IsLoopback() && h.Addr.Port == zzListenPort), "dialled its own listening address")
		vrt.Assert(!(h.Addr.IP[0] == 10 && h.Addr.IP[2] == 1), "dialled a blocked address")
		vrt.Assert(!bannedBefore[ip], "dialled an IP that is banned for sending corrupt data")
		_, bannedNow := t.bannedPeerIPs[ip]
		vrt.Assert(!bannedNow, "dialled the IP of the peer that has just sent corrupt data")
		vrt.Assert(!connectedBefore[ip], "dialled an IP it is already connected or connecting to")
	}
	for pe := range t.peers {
		seen[pe.IP()]++
	}
	for ip, n := range seen {
		vrt.Assert(n == 1, "two connections to one IP")
		_, ok := t.connectedPeerIPs[ip]
		vrt.Assert(ok, "connection to an IP that is not marked as connected")
	}
	vrt.Assert(len(t.connectedPeerIPs) == len(seen)+len(t.incomingHandshakers), "an IP is marked as connected without a connection")
}

// ZZDialAdmission: every sequence of 4 events on a downloading torrent with
// MaxPeerDial 1..2 and the blocklist 10.0.1.0/24 enabled for outgoing
// connections - a tracker reply with one of 6 addresses (two ports of one host,
// another host, a blocked host, the own listening address, a zero port), an outgoing
// handshake finishing (ok or failed), a connected peer delivering a piece that
// fails the hash check (ban), a disconnect, an incoming connection,
// completion, stop (the last two end the sequence): every
// dial goes to an address with a non-zero port that is not the client's own,
// not blocked, not banned, not already connected or being connected; at most
// MaxPeerDial outgoing connections; one connection per IP; an IP is marked as
// connected only while a connection or handshake to it exists (also after
// completion and after stop).
//
//vrt:cover ZZDialAdmission dialled
//vrt:cover ZZDialAdmission peer banned
//vrt:cover ZZDialAdmission address kept while at the dial limit
//vrt:cover ZZDialAdmission completed with handshakes in flight
func ZZDialAdmission() { zzDialAdmission(4) }

// ZZDialAdmission5: 5 events.
func ZZDialAdmission5() { zzDialAdmission(5) }

// ZZDialBanned: the 4-event script address, address, handshake ok, corrupt
// piece (all other choices arbitrary).
func ZZDialBanned() { zzDialScript = []int{0, 0, 1, 2}; zzDialAdmission(4); zzDialScript = nil }

// The canonical peer priority (CRC32-C of the address pair) only orders the
// candidate queue; here it is an injective function of the address with the
// two orders of the two ports both occurring (arbitrary-priority behaviour of
// the queue itself is the subject of the addrlist harness).
//
//vrt:replace github.com/cenkalti/rain/v2/internal/peerpriority.Calculate github.com/cenkalti/rain/v2/torrent.zzDialPriority ZZDialAdmission ZZDialAdmission5 ZZDialBanned
func zzDialPriority(a, b *net.TCPAddr) peerpriority.Priority {
	p := uint32(a.IP[0])<<24 | uint32(a.IP[2])<<20 | uint32(a.IP[3])<<16 | uint32(a.Port)
	if a.IP[3] == 2 {
		p ^= 1 // 7000 and 7001 swap places for this host
	}
	return peerpriority.Priority(p)
}

var zzDialScript []int

func zzDialAdmission(steps int) {
	info := metainfo.ZZConcreteInfo(zzPieceLen, zzNumPieces, []int64{zzPieceLen * zzNumPieces}, false)
	sto := &zzStorage{}
	zzLog, zzSentLog, zzDHTNodes, zzCancelled, zzAcceptors, zzResumerFails = nil, nil, nil, nil, 0, false
	s := zzSession()
	s.blocklist = blocklist.New()
	n, err := s.blocklist.Reload(strings.NewReader("10.0.1.0/24\n"))
	vrt.Assert(err == nil && n == 1, "blocklist not loaded")
	s.config.BlocklistEnabledForOutgoingConnections = true
	s.config.BlocklistEnabledForIncomingConnections = true
	limit := vrt.Choice("max_peer_dial", 2) + 1
	s.config.MaxPeerDial = limit
	t, err := newTorrent(s, "tid", time.Time{}, info.Hash[:], sto, "name", zzListenPort, nil, nil, info, nil, resumer.Stats{}, nil, false, false, false, false)
	vrt.Assert(err == nil, "newTorrent failed")
	if err != nil {
		return
	}
	zzStartDownloading(t, sto)
	dialled := map[*outgoinghandshaker.OutgoingHandshaker]bool{}
	nextID := byte(1)
	for step := 0; step < steps; step++ {
		bannedBefore := map[string]bool{}
		for ip := range t.bannedPeerIPs {
			bannedBefore[ip] = true
		}
		connectedBefore := map[string]bool{}
		for ip := range t.connectedPeerIPs {
			connectedBefore[ip] = true
		}
		ev := -1
		if zzDialScript != nil {
			ev = zzDialScript[step]
		} else {
			ev = vrt.Choice("event", 7)
		}
		switch ev {
		case 0: // addresses from a tracker or from PEX
			ad := zzDialAddrs[vrt.Choice("address", len(zzDialAddrs))]
			ip, port, src := ad.IP, ad.Port, peersource.Tracker
			full := len(t.outgoingHandshakers)+len(t.outgoingPeers) >= limit
			t.handleNewPeers([]*net.TCPAddr{{IP: ip, Port: port}}, src)
			vrt.Cover(full && t.addrList.Len() > 0, "address kept while at the dial limit")
		case 1: // an outgoing handshake finishes
			var h *outgoinghandshaker.OutgoingHandshaker
			k := vrt.Choice("which_handshake", 2)
			for x := range t.outgoingHandshakers {
				if k == 0 {
					h = x
				}
				k--
			}
			vrt.Assume(h != nil)
			if vrt.Bool("handshake_ok") {
				h.Conn = &vrt.Conn{Remote: h.Addr}
				h.PeerID[0] = nextID
				nextID++
			} else {
				h.Error = vrt.ErrIO
			}
			// the connected-before set must not count this very connection
			delete(connectedBefore, h.Addr.IP.String())
			t.handleOutgoingHandshakeDone(h)
		case 2: // a connected peer delivers a whole piece that fails the hash check
			var pe *peer.Peer
			k := vrt.Choice("which_peer", 2)
			for x := range t.peers {
				if k == 0 {
					pe = x
				}
				k--
			}
			vrt.Assume(pe != nil && !pe.Closed)
			t.handlePeerMessage(peer.Message{Peer: pe, Message: peerprotocol.BitfieldMessage{Data: []byte{0xc0}}})
			t.handlePeerMessage(peer.Message{Peer: pe, Message: peerprotocol.UnchokeMessage{}})
			pd, ok := t.pieceDownloaders[pe]
			vrt.Assume(ok)
			buf := t.piecePool.Get(zzPieceLen)
			t.handlePieceMessage(peer.PieceMessage{Peer: pe, Piece: peerreader.Piece{PieceMessage: peerprotocol.PieceMessage{Index: pd.Piece.Index, Begin: 0}, Buffer: buf}})
			pw := piecewriter.New(pd.Piece, pe, pd.Buffer)
			pw.HashOK = false
			ip := pe.IP()
			delete(connectedBefore, ip)
			t.handlePieceWriteDone(pw)
			vrt.Cover(true, "peer banned")
			_, banned := t.bannedPeerIPs[ip]
			vrt.Assert(banned && pe.Closed, "peer that sent a corrupt piece not disconnected and banned")
		case 3: // a peer disconnects
			var pe *peer.Peer
			k := vrt.Choice("which_peer", 2)
			for x := range t.peers {
				if k == 0 {
					pe = x
				}
				k--
			}
			vrt.Assume(pe != nil && !pe.Closed)
			delete(connectedBefore, pe.IP())
			t.closePeer(pe)
		case 4: // an incoming connection
			ip := zzDialIPs[vrt.Choice("ip", 3)]
			conn := &vrt.Conn{Remote: &net.TCPAddr{IP: ip, Port: 40000 + step}}
			before := len(t.incomingHandshakers)
			_, dup := t.connectedPeerIPs[ip.String()]
			_, banned := t.bannedPeerIPs[ip.String()]
			t.handleNewConnection(conn)
			if dup || banned || ip[2] == 1 {
				vrt.Assert(len(t.incomingHandshakers) == before && conn.Closed == 1, "incoming connection from a blocked, banned or already connected IP accepted")
			}
		case 5: // all pieces arrive: the torrent completes and stops dialling
			vrt.Note("complete")
			for i := range t.pieces {
				t.pieces[i].Done = true
				t.bitfield.Set(uint32(i))
			}
			t.checkCompletion()
			vrt.Cover(true, "completed with handshakes in flight")
			vrt.Assert(len(t.outgoingHandshakers) == 0, "outgoing handshake still running after completion")
			zzDialInv(t, limit, dialled, bannedBefore, connectedBefore)
			return
		case 6: // the user stops the torrent
			vrt.Note("stop")
			t.stop(nil)
			vrt.Assert(len(t.peers) == 0 && len(t.outgoingHandshakers) == 0 && len(t.incomingHandshakers) == 0, "stopped torrent still has connections")
			vrt.Assert(len(t.connectedPeerIPs) == 0, "stopped torrent still marks an IP as connected (it can never be dialled or accepted again)")
			vrt.Assert(t.addrList.Len() == 0, "stopped torrent keeps candidate addresses")
			return
		}
		zzDialInv(t, limit, dialled, bannedBefore, connectedBefore)
	}
}
