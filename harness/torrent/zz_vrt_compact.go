package torrent

import (
	"os"

	"github.com/cenkalti/rain/v2/internal/bitfield"
	"github.com/cenkalti/rain/v2/internal/logger"
	"github.com/cenkalti/rain/v2/internal/metainfo"
	"github.com/cenkalti/rain/v2/internal/resumer/boltdbresumer"
	vrt "github.com/cenkalti/rain/v2/internal/zzvrt"
	"go.etcd.io/bbolt"
)

// The compacted database is written through the real boltdbresumer into the
// key/value model of bbolt (see the boltdbresumer harness).
//
//vrt:use internal/resumer/boltdbresumer

//vrt:replace go.etcd.io/bbolt.Open github.com/cenkalti/rain/v2/torrent.zzBoltOpen ZZCompactDatabase
func zzBoltOpen(path string, mode os.FileMode, options *bbolt.Options) (*bbolt.DB, error) {
	return &bbolt.DB{}, nil
}

//vrt:replace (*go.etcd.io/bbolt.DB).Close github.com/cenkalti/rain/v2/torrent.zzBoltClose ZZCompactDatabase
func zzBoltClose(db *bbolt.DB) error { return nil }

// ZZCompactDatabase: CompactDatabase on a session holding one torrent in an
// arbitrary resting state - with or without metadata, with or without a
// bitfield (never started / verified), arbitrary flags and counters: it does
// not crash; a torrent that has metadata gets a record, and every field of
// that record reads back (real Write and Read) equal to the torrent's state.
//
//vrt:cover ZZCompactDatabase torrent with metadata but no bitfield
//vrt:cover ZZCompactDatabase record compared
func ZZCompactDatabase() {
	boltdbresumer.ZZModelReset()
	var info *metainfo.Info
	if vrt.Bool("has_metadata") {
		info = metainfo.ZZConcreteInfo(zzPieceLen, zzNumPieces, []int64{zzPieceLen * zzNumPieces}, false)
	}
	var bf *bitfield.Bitfield
	if info != nil && vrt.Bool("has_bitfield") {
		bf = bitfield.New(zzNumPieces)
		if vrt.Bool("piece0") {
			bf.Set(0)
		}
	}
	vrt.Cover(info != nil && bf == nil, "torrent with metadata but no bitfield")
	t := zzNewTorrent(info, bf, &zzStorage{})
	t.stopAfterDownload = vrt.Bool("stop_after_download")
	t.sequential = vrt.Bool("sequential")
	t.bytesUploaded.Inc(int64(vrt.Choice("uploaded_bits", 4)) << 30)
	s := t.session
	s.log = logger.New("zz")
	s.torrents = map[string]*Torrent{t.id: {torrent: t}}
	err := s.CompactDatabase("compacted.db")
	vrt.Assert(err == nil, "CompactDatabase failed")
	if err != nil || info == nil {
		return
	}
	res, err := boltdbresumer.New(&bbolt.DB{}, torrentsBucket)
	vrt.Assert(err == nil, "resumer on the compacted database failed")
	spec, err := res.Read(t.id)
	vrt.Assert(err == nil && spec != nil, "torrent with metadata missing from (or unreadable in) the compacted database")
	if err != nil || spec == nil {
		return
	}
	vrt.Cover(true, "record compared")
	vrt.Assert(spec.Port == t.port && spec.Name == t.name, "port or name differs in the compacted database")
	vrt.Assert(spec.StopAfterDownload == t.stopAfterDownload && spec.Sequential == t.sequential, "flags differ in the compacted database")
	vrt.Assert(spec.BytesUploaded == t.bytesUploaded.Count(), "uploaded counter differs in the compacted database")
	vrt.Assert(spec.Started == (t.status() != Stopped), "started flag differs in the compacted database")
	if bf == nil {
		vrt.Assert(len(spec.Bitfield) == 0, "bitfield invented for a torrent that has none")
	} else {
		vrt.Assert(len(spec.Bitfield) == 1 && spec.Bitfield[0] == bf.Bytes()[0], "bitfield differs in the compacted database")
	}
	vrt.Assert(len(spec.InfoHash) == 20 && spec.InfoHash[0] == t.infoHash[0] && spec.InfoHash[19] == t.infoHash[19], "info-hash differs in the compacted database")
}
