package torrent

import (
	"io"
	"strings"

	"github.com/cenkalti/rain/v2/internal/metainfo"
	"github.com/cenkalti/rain/v2/internal/resumer/boltdbresumer"
	"github.com/cenkalti/rain/v2/internal/storage"
	vrt "github.com/cenkalti/rain/v2/internal/zzvrt"
	"github.com/gofrs/uuid"
	"github.com/nictuku/dht"
	"go.etcd.io/bbolt"
)

// ---- environment of the session registry ----

var (
	zzRecords     []string // ids that have a resume record
	zzMetaFails   bool
	zzWriteFails  bool
	zzInsertOrder []string // "write:<id>" / "insert" events to check record-before-insert
)

// The metainfo parser (bencode, reflection) is replaced by "parses to a fixed
// 2-piece torrent or is rejected".
//
//vrt:replace (*github.com/cenkalti/rain/v2/torrent.Session).parseMetaInfo github.com/cenkalti/rain/v2/torrent.zzParseMetaInfo ZZRegistrySeq
func zzParseMetaInfo(s *Session, r io.Reader) (*metainfo.MetaInfo, error) {
	if zzMetaFails {
		return nil, vrt.ErrIO
	}
	info := metainfo.ZZConcreteInfo(zzPieceLen, zzNumPieces, []int64{zzPieceLen * zzNumPieces}, false)
	return &metainfo.MetaInfo{Info: *info}, nil
}

// One resume update is one atomic bbolt transaction (bbolt's contract).
//
//vrt:replace (*github.com/cenkalti/rain/v2/internal/resumer/boltdbresumer.Resumer).Write github.com/cenkalti/rain/v2/torrent.zzResumerWrite ZZRegistrySeq
func zzResumerWrite(r *boltdbresumer.Resumer, id string, spec *boltdbresumer.Spec) error {
	if zzWriteFails {
		return vrt.ErrIO
	}
	zzRecords = append(zzRecords, id)
	return nil
}

var zzDeleted []string

//vrt:replace (*go.etcd.io/bbolt.DB).Update github.com/cenkalti/rain/v2/torrent.zzDBUpdate ZZRegistrySeq
func zzDBUpdate(db *bbolt.DB, fn func(*bbolt.Tx) error) error { return fn(&bbolt.Tx{}) }

//vrt:replace (*go.etcd.io/bbolt.Tx).Bucket github.com/cenkalti/rain/v2/torrent.zzTxBucket ZZRegistrySeq
func zzTxBucket(tx *bbolt.Tx, name []byte) *bbolt.Bucket { return &bbolt.Bucket{} }

//vrt:replace (*go.etcd.io/bbolt.Bucket).DeleteBucket github.com/cenkalti/rain/v2/torrent.zzDeleteBucket ZZRegistrySeq
func zzDeleteBucket(b *bbolt.Bucket, key []byte) error {
	id := string(key)
	var keep []string
	for _, r := range zzRecords {
		if r != id {
			keep = append(keep, r)
		}
	}
	zzRecords = keep
	return nil
}

var zzUUIDs int

//vrt:replace github.com/gofrs/uuid.NewV1 github.com/cenkalti/rain/v2/torrent.zzNewV1 ZZRegistrySeq
func zzNewV1() (uuid.UUID, error) {
	var u uuid.UUID
	zzUUIDs++
	u[0] = byte(zzUUIDs) // distinct per call, as a time-based UUID is
	return u, nil
}

type zzProvider struct{ fail bool }

func (p *zzProvider) GetStorage(id string) (storage.Storage, error) {
	if p.fail {
		return nil, vrt.ErrIO
	}
	return &zzStorage{}, nil
}

const zzPortBase = 50000

func zzRegistryInv(s *Session, nports int) {
	used := map[int]bool{}
	for id, t := range s.torrents {
		vrt.Assert(t.torrent.id == id, "registry key differs from the torrent's id")
		p := t.torrent.port
		vrt.Assert(p >= zzPortBase && p < zzPortBase+nports, "torrent port outside the configured range")
		vrt.Assert(!used[p], "two live torrents share a listening port")
		used[p] = true
		_, free := s.availablePorts[p]
		vrt.Assert(!free, "a port is both free and owned by a torrent")
		has := false
		for _, r := range zzRecords {
			if r == id {
				has = true
			}
		}
		vrt.Assert(has, "a torrent in the session has no resume record")
	}
	vrt.Assert(len(s.availablePorts)+len(used) == nports, "a port of the range is neither free nor owned (leaked or duplicated)")
	vrt.Assert(len(zzRecords) == len(s.torrents), "resume records and session torrents differ")
}

// ZZRegistrySeq: every sequence of 3 add/remove operations on a session with a
// 2-port range (adds with explicit or generated id; metainfo rejection,
// storage failure, resume-write failure injected arbitrarily; removes of any
// of the ids): ids unique, ports never shared or leaked, session torrents ==
// resume records.
//
//vrt:cover ZZRegistrySeq failed add
//vrt:cover ZZRegistrySeq port exhausted
//vrt:cover ZZRegistrySeq removed
func ZZRegistrySeq() {
	const nports = 2
	s := zzSession()
	s.availablePorts = map[int]struct{}{}
	for i := 0; i < nports; i++ {
		s.availablePorts[zzPortBase+i] = struct{}{}
	}
	s.torrents = map[string]*Torrent{}
	s.torrentsByInfoHash = map[dht.InfoHash][]*Torrent{}
	s.config.DHTEnabled = false
	prov := &zzProvider{}
	s.storage = prov
	zzRecords = nil
	zzUUIDs = 0
	ids := []string{"a", "b"}
	for step := 0; step < 3; step++ {
		switch vrt.Choice("operation", 2) {
		case 0:
			opt := &AddTorrentOptions{Stopped: true}
			if vrt.Bool("explicit_id") {
				opt.ID = ids[vrt.Choice("id", 2)]
			}
			zzMetaFails = vrt.Bool("metainfo_rejected")
			prov.fail = vrt.Bool("storage_fails")
			zzWriteFails = vrt.Bool("resume_write_fails")
			free := len(s.availablePorts)
			n := len(s.torrents)
			t, err := s.AddTorrent(strings.NewReader(""), opt)
			if err != nil {
				vrt.Cover(true, "failed add")
				vrt.Cover(free == 0, "port exhausted")
				vrt.Assert(t == nil && len(s.torrents) == n, "failed add registered a torrent")
				vrt.Assert(len(s.availablePorts) == free, "failed add leaked or duplicated a port")
			} else {
				vrt.Assert(len(s.torrents) == n+1 && len(s.availablePorts) == free-1, "successful add did not take exactly one port and one registry slot")
			}
		case 1:
			var all []string
			for id := range s.torrents {
				all = append(all, id)
			}
			vrt.Assume(len(all) > 0)
			id := all[vrt.Choice("victim", len(all))]
			free := len(s.availablePorts)
			err := s.RemoveTorrent(id, true)
			vrt.Cover(true, "removed")
			vrt.Assert(err == nil, "remove failed")
			_, still := s.torrents[id]
			vrt.Assert(!still && len(s.availablePorts) == free+1, "remove did not free the registry slot and exactly one port")
		}
		zzRegistryInv(s, nports)
	}
}
