package zzvrt

import (
	"io"
	"net"
	"time"
)

// MemFile is an in-memory file used in place of a storage file: ReadAt serves
// Data, WriteAt stores into Data and logs the call.
type MemFile struct {
	Data   []byte
	Writes []WriteRec
	Closed int
	Fail   bool // WriteAt/ReadAt return an error
	// OnWrite, if set, is called for every successful WriteAt (effect log of crash-order harnesses).
	OnWrite func(off int64, n int)
}

type WriteRec struct {
	Off int64
	Len int
}

type memErr struct{}

func (memErr) Error() string { return "zz: injected I/O error" }

var ErrIO error = memErr{}

func (f *MemFile) ReadAt(p []byte, off int64) (int, error) {
	if f.Fail {
		return 0, ErrIO
	}
	if off < 0 || off > int64(len(f.Data)) {
		return 0, io.EOF
	}
	n := copy(p, f.Data[off:])
	if n < len(p) {
		return n, io.EOF
	}
	return n, nil
}

func (f *MemFile) WriteAt(p []byte, off int64) (int, error) {
	if f.Fail {
		return 0, ErrIO
	}
	f.Writes = append(f.Writes, WriteRec{off, len(p)})
	if off < 0 || off+int64(len(p)) > int64(len(f.Data)) {
		return 0, ErrIO
	}
	copy(f.Data[off:], p)
	if f.OnWrite != nil {
		f.OnWrite(off, len(p))
	}
	return len(p), nil
}

func (f *MemFile) Close() error { f.Closed++; return nil }

// ---- model timers (engine only) ----

// TimerChan returns the channel of the k-th time.Timer/Ticker/After created so
// far, so the harness can fire it by sending a value. Natively nil.
func TimerChan(k int) chan time.Time { return nil }

// TimerResets is the number of durations recorded so far (one per timer
// creation and per Reset).
func TimerResets() int { return 0 }

// TimerReset returns the k-th recorded duration in nanoseconds (-1 if none).
func TimerReset(k int) int64 { return -1 }

// ---- fake connection ----

type Addr struct{}

func (Addr) Network() string { return "tcp" }
func (Addr) String() string  { return "zz:1" }

// Conn is an in-memory net.Conn: Write records what is written (one entry per
// call) and signals Written; Read serves In, fragmented as directed by Split.
type Conn struct {
	Writes  [][]byte
	Written chan struct{}
	Closed  int
	In      []byte
	Pos     int
	// Split: bytes returned by the first Read (0 = everything available);
	// OneByOne: every Read returns a single byte.
	Split    int
	OneByOne bool
	reads    int
	// Remote is the peer address (default 1.2.3.4:5).
	Remote *net.TCPAddr
	// Stalls: stream positions at which a Read fails once with a timeout error
	// (read deadline expired) before the byte at that position is delivered;
	// a Read never crosses a pending stall position. Ascending order.
	Stalls  []int
	stalled int
}

// ErrTimeout is a net.Error whose Timeout() is true (an expired deadline).
type timeoutError struct{}

func (timeoutError) Error() string   { return "zz: i/o timeout" }
func (timeoutError) Timeout() bool   { return true }
func (timeoutError) Temporary() bool { return true }

var ErrTimeout net.Error = timeoutError{}

func (c *Conn) Write(b []byte) (int, error) {
	c.Writes = append(c.Writes, append([]byte(nil), b...))
	if c.Written != nil {
		c.Written <- struct{}{}
	}
	return len(b), nil
}

func (c *Conn) Read(p []byte) (int, error) {
	if c.Pos >= len(c.In) {
		return 0, io.EOF
	}
	n := len(c.In) - c.Pos
	if n > len(p) {
		n = len(p)
	}
	if c.stalled < len(c.Stalls) {
		next := c.Stalls[c.stalled]
		if next <= c.Pos {
			c.stalled++
			return 0, ErrTimeout
		}
		if n > next-c.Pos {
			n = next - c.Pos
		}
	}
	if c.OneByOne {
		n = 1
	} else if c.reads == 0 && c.Split > 0 && c.Split < n {
		n = c.Split
	}
	c.reads++
	copy(p, c.In[c.Pos:c.Pos+n])
	c.Pos += n
	return n, nil
}

func (c *Conn) Close() error        { c.Closed++; return nil }
func (c *Conn) LocalAddr() net.Addr { return Addr{} }
func (c *Conn) RemoteAddr() net.Addr {
	if c.Remote == nil {
		c.Remote = &net.TCPAddr{IP: net.IP{1, 2, 3, 4}, Port: 5}
	}
	return c.Remote
}
func (c *Conn) SetDeadline(t time.Time) error      { return nil }
func (c *Conn) SetReadDeadline(t time.Time) error  { return nil }
func (c *Conn) SetWriteDeadline(t time.Time) error { return nil }

// ---- in-memory duplex pipe (two cooperating goroutines) ----

// PipeEnd is one end of an in-memory duplex byte pipe. Read blocks until the
// peer has written; Close makes the peer's Read return io.EOF once drained.
type PipeEnd struct {
	in       chan []byte
	peer     *PipeEnd
	left     []byte
	closed   bool
	OneByOne bool // every Read returns a single byte
	Wrote    int
}

// NewPipe returns the two ends of a pipe.
func NewPipe() (*PipeEnd, *PipeEnd) {
	a := &PipeEnd{in: make(chan []byte, 64)}
	b := &PipeEnd{in: make(chan []byte, 64)}
	a.peer, b.peer = b, a
	return a, b
}

func (p *PipeEnd) Write(b []byte) (int, error) {
	if p.closed {
		return 0, ErrIO
	}
	if len(b) == 0 {
		return 0, nil
	}
	p.Wrote += len(b)
	p.peer.in <- append([]byte(nil), b...)
	return len(b), nil
}

func (p *PipeEnd) Read(b []byte) (int, error) {
	for len(p.left) == 0 {
		chunk, ok := <-p.in
		if !ok {
			return 0, io.EOF
		}
		p.left = chunk
	}
	if len(b) == 0 {
		return 0, nil
	}
	n := len(p.left)
	if n > len(b) {
		n = len(b)
	}
	if p.OneByOne {
		n = 1
	}
	copy(b, p.left[:n])
	p.left = p.left[n:]
	return n, nil
}

// Close closes this end: the peer reads EOF after draining.
func (p *PipeEnd) Close() error {
	if !p.closed {
		p.closed = true
		close(p.peer.in)
	}
	return nil
}

// net.Conn methods of a pipe end (deadlines are not modelled).
func (p *PipeEnd) LocalAddr() net.Addr                { return Addr{} }
func (p *PipeEnd) RemoteAddr() net.Addr               { return &net.TCPAddr{IP: net.IP{1, 2, 3, 4}, Port: 5} }
func (p *PipeEnd) SetDeadline(t time.Time) error      { return nil }
func (p *PipeEnd) SetReadDeadline(t time.Time) error  { return nil }
func (p *PipeEnd) SetWriteDeadline(t time.Time) error { return nil }
