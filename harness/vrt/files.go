package zzvrt

import "io"

// MemFile is an in-memory file used in place of a storage file: ReadAt serves
// Data, WriteAt stores into Data and logs the call.
type MemFile struct {
	Data   []byte
	Writes []WriteRec
	Closed int
	Fail   bool // WriteAt/ReadAt return an error
}

type WriteRec struct {
	Off int64
	Len int
}

type memErr struct{}

func (memErr) Error() string { return "zz: injected I/O error" }

var ErrIO error = memErr{}

func (f *MemFile) ReadAt(p []byte, off int64) (int, error) {
	if f.Fail {
		return 0, ErrIO
	}
	if off < 0 || off > int64(len(f.Data)) {
		return 0, io.EOF
	}
	n := copy(p, f.Data[off:])
	if n < len(p) {
		return n, io.EOF
	}
	return n, nil
}

func (f *MemFile) WriteAt(p []byte, off int64) (int, error) {
	if f.Fail {
		return 0, ErrIO
	}
	f.Writes = append(f.Writes, WriteRec{off, len(p)})
	if off < 0 || off+int64(len(p)) > int64(len(f.Data)) {
		return 0, ErrIO
	}
	copy(f.Data[off:], p)
	return len(p), nil
}

func (f *MemFile) Close() error { f.Closed++; return nil }
