// Package zzvrt is the harness API of the /verif symbolic engine (gosym).
//
// Under gosym every function here is intercepted: Nondet values become SMT
// variables, Assume extends the path condition, Assert is an obligation
// discharged by the solver. Compiled natively (replay of a counterexample with
// `go test -overlay`) the same functions read the solver's model from the JSON
// file named by $VRT_REPLAY, so the harness that was verified is the program
// that is replayed.
package zzvrt

import (
	"encoding/json"
	"fmt"
	"os"
	"strconv"
	"strings"
	"time"
)

type bytesModel struct {
	Default uint64            `json:"default"`
	Len     uint64            `json:"len"`
	Data    map[string]uint64 `json:"data"`
}

type replayFile struct {
	Label string                 `json:"label"`
	Model map[string]uint64      `json:"model"`
	Bytes map[string]*bytesModel `json:"bytes"`
}

var (
	replayPath string
	replay     *replayFile
	seq        int
	Failures   []string
	Observed   []string
	Covered    = map[string]bool{}
)

func load() {
	if replay != nil {
		return
	}
	replay = &replayFile{Model: map[string]uint64{}}
	p := replayPath
	if p == "" {
		p = os.Getenv("VRT_REPLAY")
	}
	if p == "" {
		return
	}
	b, err := os.ReadFile(p)
	if err != nil {
		panic("vrt: cannot read replay file: " + err.Error())
	}
	if err := json.Unmarshal(b, replay); err != nil {
		panic("vrt: bad replay file: " + err.Error())
	}
}

// Reset restarts the nondet sequence (call at the start of a replay test).
func Reset() { seq = 0; Failures = nil; Observed = nil; replay = nil; load() }

func sanitize(name string) string {
	var sb strings.Builder
	for _, c := range name {
		if c >= 'a' && c <= 'z' || c >= 'A' && c <= 'Z' || c >= '0' && c <= '9' || c == '_' {
			sb.WriteRune(c)
		} else {
			sb.WriteByte('_')
		}
	}
	return sb.String()
}

func next(name string) uint64 {
	load()
	key := sanitize(name) + "__" + strconv.Itoa(seq)
	seq++
	return replay.Model[key]
}

// Symbolic reports whether the harness runs under the symbolic engine.
func Symbolic() bool { return false }

func Bool(name string) bool  { return next(name) != 0 }
func U8(name string) uint8   { return uint8(next(name)) }
func U16(name string) uint16 { return uint16(next(name)) }
func U32(name string) uint32 { return uint32(next(name)) }
func U64(name string) uint64 { return next(name) }
func I32(name string) int32  { return int32(uint32(next(name))) }
func I64(name string) int64  { return int64(next(name)) }
func Int(name string) int    { return int(int64(next(name))) }

// Choice returns an arbitrary value in [0,n); the engine forks one path per value.
func Choice(name string, n int) int {
	v := int(int64(next(name)))
	if v < 0 || v >= n {
		return 0
	}
	return v
}

// Bytes returns a fresh byte slice of length n with arbitrary content. n may
// itself be a nondet value.
func Bytes(name string, n int) []byte {
	load()
	key := sanitize(name) + "__" + strconv.Itoa(seq)
	seq++
	b := make([]byte, n)
	if m := replay.Bytes[key]; m != nil {
		if m.Default != 0 {
			for i := range b {
				b[i] = byte(m.Default)
			}
		}
		for k, v := range m.Data {
			i, _ := strconv.Atoi(k)
			if i >= 0 && i < n {
				b[i] = byte(v)
			}
		}
	}
	return b
}

// String returns a string of concrete length n with arbitrary content.
func String(name string, n int) string { return string(Bytes(name, n)) }

type assumeFailed struct{}

// Assume restricts the inputs considered. Natively a violated assumption
// aborts the replay (the model did not satisfy the harness's precondition).
func Assume(c bool) {
	if !c {
		panic(assumeFailed{})
	}
}

// Assert is the property: the engine asks the solver for inputs that make c false.
func Assert(c bool, label string) {
	if !c {
		Failures = append(Failures, label)
	}
}

// Cover marks a situation the harness must be able to reach (vacuity guard).
func Cover(c bool, label string) {
	if c {
		Covered[label] = true
	}
}

// Observe records a value so engine and native runs can be compared.
func Observe(name string, v uint64) {
	Observed = append(Observed, fmt.Sprintf("%s=%d", name, v))
}

// Note adds a line to the ghost log shown with counterexamples.
func Note(msg string) {}

// Yield lets every other goroutine run until it blocks (engine: exactly that;
// natively: a short sleep).
func Yield() { time.Sleep(2 * time.Millisecond) }

// Panics runs f and reports whether it panicked (any panic value).
func Panics(f func()) (p bool) {
	defer func() {
		if r := recover(); r != nil {
			if _, ok := r.(assumeFailed); ok {
				panic(r)
			}
			p = true
		}
	}()
	f()
	return false
}

// MaxMake returns the largest byte-slice allocation size seen so far on this
// path (engine only; natively 0).
func MaxMake() int { return 0 }

// Spawned returns how many goroutines whose function name contains substr
// were started so far (engine only; natively 0).
func Spawned(substr string) int { return 0 }

// RunReplayFile is RunReplay with an explicit replay file.
func RunReplayFile(path string, f func()) string {
	replayPath = path
	defer func() { replayPath = "" }()
	return RunReplay(f)
}

// RunReplay runs harness f natively against the replay file and returns the
// outcome in the form the driver expects.
func RunReplay(f func()) (outcome string) {
	Reset()
	defer func() {
		if r := recover(); r != nil {
			if _, ok := r.(assumeFailed); ok {
				// the model only fixes the inputs up to the violated assertion; an
				// assumption about later inputs failing after that is expected
				if len(Failures) > 0 {
					outcome = "ASSERT-FAILED: " + strings.Join(Failures, " | ")
					return
				}
				outcome = "ASSUME-FAILED"
				return
			}
			if len(Failures) > 0 {
				outcome = "ASSERT-FAILED: " + strings.Join(Failures, " | ") + fmt.Sprintf(" (then panic: %v)", r)
				return
			}
			outcome = fmt.Sprintf("PANIC: %v", r)
		}
	}()
	f()
	if len(Failures) > 0 {
		return "ASSERT-FAILED: " + strings.Join(Failures, " | ")
	}
	return "OK"
}
