package tracker

import (
	vrt "github.com/cenkalti/rain/v2/internal/zzvrt"
)

// ZZDecodePeersCompact: any byte string of length <= 19 decodes to an error or
// to exactly len/6 addresses with 4-byte IPs and 16-bit ports; no panic.
//
//vrt:cover ZZDecodePeersCompact accepted three peers
//vrt:cover ZZDecodePeersCompact rejected
func ZZDecodePeersCompact() {
	n := vrt.Choice("len", 20)
	b := vrt.Bytes("compact_peers", n)
	addrs, err := DecodePeersCompact(b)
	if err != nil {
		vrt.Cover(true, "rejected")
		vrt.Assert(n%6 != 0, "well-formed peer list rejected")
		return
	}
	vrt.Assert(n%6 == 0 && len(addrs) == n/6, "wrong number of addresses")
	vrt.Cover(len(addrs) == 3, "accepted three peers")
	for i, a := range addrs {
		vrt.Assert(len(a.IP) == 4, "IP is not 4 bytes")
		k := vrt.Choice("witness_ip_byte", 4)
		vrt.Assert(a.IP[k] == b[6*i+k], "IP bytes wrong")
		vrt.Assert(a.Port == int(b[6*i+4])<<8|int(b[6*i+5]), "port wrong")
	}
}
