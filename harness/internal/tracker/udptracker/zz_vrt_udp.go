package udptracker

import (
	"bytes"
	"context"

	"github.com/cenkalti/rain/v2/internal/logger"
	"github.com/cenkalti/rain/v2/internal/tracker"
	vrt "github.com/cenkalti/rain/v2/internal/zzvrt"
)

func zzBE(b []byte, off, n int) uint64 {
	var v uint64
	for i := 0; i < n; i++ {
		v = v<<8 | uint64(b[off+i])
	}
	return v
}

// ZZUDPAnnouncePacket: the announce datagram built for any torrent identity,
// counters, event, connection and transaction id equals the BEP 15 layout
// (offsets written out here, independent of the repository's structs), and in
// particular carries the torrent's 20-byte peer id unchanged.
//
//vrt:cover ZZUDPAnnouncePacket with url data
func ZZUDPAnnouncePacket() {
	var req tracker.AnnounceRequest
	ih := vrt.Bytes("info_hash", 20)
	pid := vrt.Bytes("peer_id", 20)
	copy(req.Torrent.InfoHash[:], ih)
	copy(req.Torrent.PeerID[:], pid)
	req.Torrent.BytesDownloaded = vrt.I64("downloaded")
	req.Torrent.BytesLeft = vrt.I64("left")
	req.Torrent.BytesUploaded = vrt.I64("uploaded")
	req.Torrent.Port = int(vrt.U16("port"))
	req.Event = tracker.Event(vrt.Choice("event", 4))
	req.NumWant = int(vrt.I32("num_want"))
	n := vrt.Choice("url_data_len", 5)
	urlData := vrt.String("url_data", n)
	r := newTransportRequest(context.Background(), req, "tracker:1", urlData)
	cid := vrt.I64("connection_id")
	tid := vrt.I32("transaction_id")
	r.ConnectionID = cid
	r.SetTransactionID(tid)
	var buf bytes.Buffer
	_, err := r.WriteTo(&buf)
	out := buf.Bytes()
	vrt.Assert(err == nil, "WriteTo failed")
	want := 100
	if n > 0 {
		want += 2 + n
		vrt.Cover(true, "with url data")
	}
	vrt.Assert(len(out) == want, "announce packet has the wrong length")
	if len(out) != want {
		return
	}
	vrt.Assert(zzBE(out, 0, 8) == uint64(cid), "connection id not at offset 0")
	vrt.Assert(zzBE(out, 8, 4) == 1, "action is not announce(1)")
	vrt.Assert(zzBE(out, 12, 4) == uint64(uint32(tid)), "transaction id not at offset 12")
	j := vrt.Choice("witness_byte", 20)
	vrt.Assert(out[16+j] == ih[j], "info-hash bytes differ")
	vrt.Assert(out[36+j] == pid[j], "peer id in the announce differs from the torrent's peer id")
	vrt.Assert(zzBE(out, 56, 8) == uint64(req.Torrent.BytesDownloaded), "downloaded counter wrong")
	vrt.Assert(zzBE(out, 64, 8) == uint64(req.Torrent.BytesLeft), "left counter wrong")
	vrt.Assert(zzBE(out, 72, 8) == uint64(req.Torrent.BytesUploaded), "uploaded counter wrong")
	vrt.Assert(zzBE(out, 80, 4) == uint64(uint32(req.Event)), "event wrong")
	vrt.Assert(zzBE(out, 88, 4) == zzBE(pid, 16, 4), "key differs from the key of the HTTP announce (peer id bytes 16..19)")
	vrt.Assert(zzBE(out, 92, 4) == uint64(uint32(int32(req.NumWant))), "num_want wrong")
	vrt.Assert(zzBE(out, 96, 2) == uint64(uint16(req.Torrent.Port)), "port wrong")
	if n > 0 {
		vrt.Assert(out[100] == 2 && int(out[101]) == n, "url-data option header wrong")
		k := vrt.Choice("witness_url_byte", n)
		vrt.Assert(out[102+k] == urlData[k], "url-data bytes wrong")
	}
}

// ZZUDPParseAnnounce: any reply bytes (<= 38) give an error or well-formed peers; no panic.
//
//vrt:cover ZZUDPParseAnnounce accepted with peers
//vrt:cover ZZUDPParseAnnounce rejected
func ZZUDPParseAnnounce() {
	n := vrt.Choice("reply_len", 39)
	data := vrt.Bytes("reply", n)
	t := &UDPTracker{log: logger.New("zz")}
	resp, peers, err := t.parseAnnounceResponse(data)
	if err != nil {
		vrt.Cover(true, "rejected")
		return
	}
	vrt.Assert(n >= 20 && (n-20)%6 == 0, "accepted a reply of invalid length")
	vrt.Assert(zzBE(data, 0, 4) == 1, "accepted a reply whose action is not announce")
	vrt.Assert(uint64(uint32(resp.Interval)) == zzBE(data, 8, 4), "interval decoded wrongly")
	vrt.Assert(len(peers) == (n-20)/6, "wrong number of peers")
	vrt.Cover(len(peers) > 0, "accepted with peers")
	for i, p := range peers {
		vrt.Assert(len(p.IP) == 4, "peer IP is not 4 bytes")
		k := vrt.Choice("witness_ip_byte", 4)
		vrt.Assert(p.IP[k] == data[20+6*i+k], "peer IP bytes wrong")
		vrt.Assert(p.Port >= 0 && p.Port <= 65535 && uint64(p.Port) == zzBE(data, 20+6*i+4, 2), "peer port wrong")
	}
}
