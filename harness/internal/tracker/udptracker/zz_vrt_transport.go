package udptracker

import (
	"context"
	"io"
	"net"
	"time"

	"github.com/cenkalti/backoff/v7"
	"github.com/cenkalti/rain/v2/internal/blocklist"
	"github.com/cenkalti/rain/v2/internal/logger"
	"github.com/cenkalti/rain/v2/internal/tracker"
	vrt "github.com/cenkalti/rain/v2/internal/zzvrt"
)

// The shared UDP transport (Transport.Run, readLoop, Do, the connect and retry
// goroutines) runs for real; only the socket, the resolver, the retry ticker and
// the random transaction ids are replaced. The harness plays the tracker.

var (
	zzListening chan struct{}
	zzUDPIn     chan []byte // datagrams the socket will deliver
	zzUDPOut    chan []byte // datagrams written to the socket
	zzUDPClosed bool
	zzNextTrx   int32
)

//vrt:replace net.ListenUDP github.com/cenkalti/rain/v2/internal/tracker/udptracker.zzListenUDP ZZUDPTransport
func zzListenUDP(network string, laddr *net.UDPAddr) (*net.UDPConn, error) {
	zzListening <- struct{}{}
	return &net.UDPConn{}, nil
}

//vrt:replace (*net.UDPConn).Read github.com/cenkalti/rain/v2/internal/tracker/udptracker.zzUDPRead ZZUDPTransport
func zzUDPRead(c *net.UDPConn, b []byte) (int, error) {
	d, ok := <-zzUDPIn
	if !ok {
		return 0, io.EOF
	}
	return copy(b, d), nil
}

//vrt:replace (*net.UDPConn).WriteTo github.com/cenkalti/rain/v2/internal/tracker/udptracker.zzUDPWriteTo ZZUDPTransport
func zzUDPWriteTo(c *net.UDPConn, b []byte, addr net.Addr) (int, error) {
	zzUDPOut <- append([]byte(nil), b...)
	return len(b), nil
}

// (UDPConn.Close is the promoted method of the embedded net.conn)
//
//vrt:replace (*net.conn).Close github.com/cenkalti/rain/v2/internal/tracker/udptracker.zzUDPClose ZZUDPTransport
func zzUDPClose(c interface{}) error {
	zzUDPClosed = true
	close(zzUDPIn)
	return nil
}

//vrt:replace github.com/cenkalti/rain/v2/internal/resolver.Resolve github.com/cenkalti/rain/v2/internal/tracker/udptracker.zzResolve ZZUDPTransport
func zzResolve(ctx context.Context, hostport string, timeout time.Duration, bl *blocklist.Blocklist) (net.IP, int, error) {
	return net.IP{9, 9, 9, 9}, 6969, nil
}

// the retry ticker fires once: every request datagram is sent exactly once
// (retransmission timing is outside the claim)
//
//vrt:replace github.com/cenkalti/backoff/v7.NewTicker github.com/cenkalti/rain/v2/internal/tracker/udptracker.zzNewTicker ZZUDPTransport
func zzNewTicker(b backoff.BackOff) *backoff.Ticker {
	ch := make(chan time.Time, 1)
	ch <- time.Time{}
	return &backoff.Ticker{C: ch}
}

//vrt:replace (*github.com/cenkalti/backoff/v7.Ticker).Stop github.com/cenkalti/rain/v2/internal/tracker/udptracker.zzTickerStop ZZUDPTransport
func zzTickerStop(t *backoff.Ticker) {}

// transaction ids are distinct (the collision path is outside the claim)
//
//vrt:replace math/rand/v2.Int32 github.com/cenkalti/rain/v2/internal/tracker/udptracker.zzTrxID ZZUDPTransport
func zzTrxID() int32 {
	zzNextTrx += 0x01010101
	return zzNextTrx
}

// the bencoded body of an error reply decodes or not; its fields are not examined
//
//vrt:replace github.com/zeebo/bencode.DecodeBytes github.com/cenkalti/rain/v2/internal/tracker/udptracker.zzDecodeErrBody ZZUDPTransport
func zzDecodeErrBody(data []byte, v interface{}) error {
	if vrt.Bool("error_body_decodes") {
		return nil
	}
	return io.ErrUnexpectedEOF
}

type zzAnnounceResult struct {
	resp *tracker.AnnounceResponse
	err  error
}

func zzPut32(b []byte, off int, v uint32) {
	b[off], b[off+1], b[off+2], b[off+3] = byte(v>>24), byte(v>>16), byte(v>>8), byte(v)
}

// zzCheckAnswer: what an announce returned must be what the first delivered
// datagram carrying its own transaction id said.
func zzCheckAnswer(who string, r zzAnnounceResult, reply []byte) {
	action := zzBE(reply, 0, 4)
	if r.err != nil {
		vrt.Assert(action != 1 || (len(reply)-20)%6 != 0, who+": a well-formed announce reply for its own transaction was turned into an error")
		return
	}
	vrt.Assert(action == 1, who+": succeeded although the reply for its transaction is not an announce reply")
	vrt.Assert(r.resp != nil, who+": nil response without error")
	if r.resp == nil {
		return
	}
	vrt.Assert(r.resp.Interval == time.Duration(int32(zzBE(reply, 8, 4)))*time.Second, who+": interval is not the one in the reply for its own transaction")
	vrt.Assert(uint64(uint32(r.resp.Leechers)) == zzBE(reply, 12, 4), who+": leechers not from its own reply")
	vrt.Assert(uint64(uint32(r.resp.Seeders)) == zzBE(reply, 16, 4), who+": seeders not from its own reply")
	vrt.Assert(len(r.resp.Peers) == (len(reply)-20)/6, who+": peer count not from its own reply")
	for i, p := range r.resp.Peers {
		vrt.Assert(len(p.IP) == 4, who+": peer IP not 4 bytes")
		if len(p.IP) != 4 {
			return
		}
		for k := 0; k < 4; k++ {
			vrt.Assert(p.IP[k] == reply[20+6*i+k], who+": peer address is not from the reply for its own transaction")
		}
		vrt.Assert(uint64(p.Port) == zzBE(reply, 24+6*i, 2), who+": peer port is not from the reply for its own transaction")
	}
}

// ZZUDPTransport: two torrents announce through one shared UDP transport to the
// same tracker. The harness is the tracker: it answers the connect request (ok,
// error action, or the first torrent is stopped meanwhile), then answers the two
// announce transactions in either order with arbitrary reply bytes, possibly
// preceded by an arbitrary stray datagram, possibly closing the transport
// before the second answer. Every Announce returns; a successful one returns
// exactly the content of the first datagram carrying its own transaction id;
// Close returns and closes the socket.
//
//vrt:cover ZZUDPTransport both announces answered
//vrt:cover ZZUDPTransport stray datagram consumed a transaction
//vrt:cover ZZUDPTransport closed with an announce pending
//vrt:cover ZZUDPTransport first torrent stopped during connect
//vrt:cover ZZUDPTransport connect reply lost to the cancellation race
func ZZUDPTransport() {
	zzListening = make(chan struct{})
	zzUDPIn = make(chan []byte)
	zzUDPOut = make(chan []byte, 8)
	zzUDPClosed = false
	zzNextTrx = 0

	tr := NewTransport(nil, time.Second)
	go tr.Run()
	<-zzListening // Run is listening; its read loop is started before the announces
	trk := &UDPTracker{rawURL: "udp://t:1", dest: "t:1", log: logger.New("zz"), transport: tr}

	var ctx [2]context.Context
	var cancel [2]context.CancelFunc
	var resC [2]chan zzAnnounceResult
	for i := 0; i < 2; i++ {
		ctx[i], cancel[i] = context.WithCancel(context.Background())
		resC[i] = make(chan zzAnnounceResult, 1)
		var req tracker.AnnounceRequest
		req.Torrent.Port = 1001 + i
		req.NumWant = 50
		go func(i int, req tracker.AnnounceRequest) {
			resp, err := trk.Announce(ctx[i], req)
			resC[i] <- zzAnnounceResult{resp, err}
		}(i, req)
	}

	// the connect request
	p := <-zzUDPOut
	vrt.Assert(len(p) == 16 && zzBE(p, 0, 8) == connectionIDMagic && zzBE(p, 8, 4) == 0, "first datagram is not a connect request")
	if len(p) != 16 {
		return
	}
	connTrx := uint32(zzBE(p, 12, 4))

	switch vrt.Choice("connect_outcome", 3) {
	case 1: // one of the torrents is stopped while the connect is in flight
		vrt.Cover(true, "first torrent stopped during connect")
		cancel[vrt.Choice("stopped_torrent", 2)]()
		// the other one must still get an answer of some kind (it is retried by
		// its announcer); the tracker may answer the connect or not
		if vrt.Bool("connect_answered_late") {
			rep := make([]byte, 16)
			zzPut32(rep, 4, connTrx)
			zzUDPIn <- rep
		}
		tr.Close()
		<-resC[0]
		<-resC[1]
		vrt.Assert(zzUDPClosed, "socket not closed by Close")
		return
	case 2: // the tracker answers the connect with an error or a wrong action
		rep := vrt.Bytes("connect_reply", 16)
		vrt.Assume(zzBE(rep, 0, 4) != 0)
		zzPut32(rep, 4, connTrx)
		zzUDPIn <- rep
		r0, r1 := <-resC[0], <-resC[1]
		vrt.Assert(r0.err != nil && r1.err != nil, "announce succeeded although the connect was refused")
		tr.Close()
		vrt.Assert(zzUDPClosed, "socket not closed by Close")
		return
	}

	connID := vrt.U64("connection_id")
	rep := make([]byte, 16)
	zzPut32(rep, 4, connTrx)
	zzPut32(rep, 8, uint32(connID>>32))
	zzPut32(rep, 12, uint32(connID))
	zzUDPIn <- rep

	// the two announce requests
	var trx [2]uint32
	var owner [2]int // which torrent sent packet k
	for k := 0; k < 2; k++ {
		var q []byte
		if k == 0 {
			// The connect goroutine may see its transaction cancelled before it
			// sees the reply (Run sets the response and cancels back to back): then
			// the connect fails and both announces end with an error, to be retried.
			var r zzAnnounceResult
			select {
			case q = <-zzUDPOut:
			case r = <-resC[0]:
				r1 := <-resC[1]
				vrt.Assert(r.err != nil && r1.err != nil, "announce succeeded without an announce request")
			case r = <-resC[1]:
				r0 := <-resC[0]
				vrt.Assert(r.err != nil && r0.err != nil, "announce succeeded without an announce request")
			}
			if q == nil {
				vrt.Cover(true, "connect reply lost to the cancellation race")
				tr.Close()
				vrt.Assert(zzUDPClosed, "socket not closed by Close")
				return
			}
		} else {
			q = <-zzUDPOut
		}
		vrt.Assert(len(q) == 100 && zzBE(q, 8, 4) == 1, "expected an announce request")
		if len(q) != 100 {
			return
		}
		vrt.Assert(zzBE(q, 0, 8) == connID, "announce request does not carry the connection id the tracker issued")
		trx[k] = uint32(zzBE(q, 12, 4))
		owner[k] = int(zzBE(q, 96, 2)) - 1001
		vrt.Assert(owner[k] == 0 || owner[k] == 1, "announce request with an unknown port")
	}
	vrt.Assert(owner[0] != owner[1] && trx[0] != trx[1] && trx[0] != connTrx && trx[1] != connTrx, "transactions not distinct")
	if owner[0] == owner[1] {
		return
	}

	// first delivered datagram per transaction
	var first [2][]byte

	// an arbitrary stray datagram (short, header-only, or reply-sized; any ids)
	if vrt.Bool("stray_datagram") {
		n := []int{7, 16, 26}[vrt.Choice("stray_len", 3)]
		s := vrt.Bytes("stray", n)
		zzUDPIn <- s
		if n >= 8 {
			for k := 0; k < 2; k++ {
				if uint32(zzBE(s, 4, 4)) == trx[k] {
					first[k] = s
					vrt.Cover(true, "stray datagram consumed a transaction")
				}
			}
		}
	}

	order := vrt.Choice("answer_order", 2)
	closeEarly := vrt.Bool("close_before_second_answer")
	for j := 0; j < 2; j++ {
		k := j ^ order
		if j == 1 && closeEarly {
			break
		}
		n := 20 + 6*vrt.Choice("reply_peers", 2)
		r := vrt.Bytes("announce_reply", n)
		zzPut32(r, 4, trx[k])
		zzUDPIn <- r
		if first[k] == nil {
			first[k] = r
		}
	}
	if closeEarly {
		vrt.Cover(true, "closed with an announce pending")
		tr.Close()
	}
	for k := 0; k < 2; k++ {
		res := <-resC[owner[k]]
		if first[k] == nil {
			vrt.Assert(res.err != nil, "announce succeeded without any reply for its transaction")
			continue
		}
		if closeEarly && res.err != nil {
			continue // the reply may be lost to the shutdown
		}
		zzCheckAnswer([]string{"first request", "second request"}[k], res, first[k])
	}
	if !closeEarly {
		vrt.Cover(true, "both announces answered")
		tr.Close()
	}
	vrt.Assert(zzUDPClosed, "socket not closed by Close")
}
