package tracker

import (
	"context"
	"errors"

	vrt "github.com/cenkalti/rain/v2/internal/zzvrt"
)

var zzErr = errors.New("zz tracker failure")

type zzTracker struct {
	id    int
	fail  bool
	calls *[]int
}

func (t *zzTracker) Announce(ctx context.Context, req AnnounceRequest) (*AnnounceResponse, error) {
	*t.calls = append(*t.calls, t.id)
	if t.fail {
		return nil, zzErr
	}
	return &AnnounceResponse{}, nil
}

func (t *zzTracker) URL() string { return "" }

// ZZTierStep: one Announce from any tier state the code itself can produce
// (stored index in [0,n]): the member contacted is the current one; a failure
// moves on to the next member (cyclically), a success keeps it. Cycling
// forever follows by induction on the stored index.
//
//vrt:cover ZZTierStep failure at the last member
//vrt:cover ZZTierStep stored index equals tier size
func ZZTierStep() {
	n := vrt.Choice("tier_size", 4) + 1
	var calls []int
	trackers := make([]Tracker, n)
	for i := range trackers {
		trackers[i] = &zzTracker{id: i, fail: vrt.Bool("member_fails"), calls: &calls}
	}
	t := &Tier{Trackers: trackers}
	idx := vrt.I32("stored_index")
	vrt.Assume(idx >= 0 && idx <= int32(n))
	t.index.Store(idx)
	vrt.Cover(idx == int32(n), "stored index equals tier size")
	before := int(t.loadIndex())
	_, err := t.Announce(context.Background(), AnnounceRequest{})
	vrt.Assert(len(calls) == 1 && calls[0] == before, "announce went to a member other than the current one")
	after := int(t.loadIndex())
	s := t.index.Load()
	vrt.Assert(s >= 0 && s <= int32(n), "stored index left the range [0,n]")
	if err != nil {
		vrt.Cover(before == n-1, "failure at the last member")
		vrt.Assert(after == (before+1)%n, "after a failed announce the next announce does not go to the next member")
	} else {
		vrt.Assert(after == before, "after a successful announce the member changed")
	}
}
