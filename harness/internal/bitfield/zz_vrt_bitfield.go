package bitfield

import (
	vrt "github.com/cenkalti/rain/v2/internal/zzvrt"
)

// ZZNewBytes: a bitfield received from a peer (any bytes of length <= 5, any
// 32-bit announced bit count): rejected or consistent - byte length is
// ceil(length/8), spare bits cleared, Test agrees with the raw bits, Count
// never exceeds the length; no panic.
//
//vrt:cover ZZNewBytes accepted with spare bits
//vrt:cover ZZNewBytes rejected
func ZZNewBytes() {
	n := vrt.Choice("num_bytes", 6)
	b := vrt.Bytes("bits", n)
	orig := append([]byte(nil), b...)
	length := vrt.U32("length")
	bf, err := NewBytes(b, length)
	if err != nil {
		vrt.Cover(true, "rejected")
		vrt.Assert(uint64(n) != (uint64(length)+7)/8, "bitfield of the right size rejected")
		return
	}
	vrt.Assert(uint64(n) == (uint64(length)+7)/8, "bitfield of the wrong size accepted")
	vrt.Assert(bf.Len() == length, "length wrong")
	vrt.Cover(length%8 != 0, "accepted with spare bits")
	if length > 0 {
		i := vrt.U32("witness_bit")
		vrt.Assume(i < length)
		vrt.Assert(bf.Test(i) == (orig[i/8]&(0x80>>(i%8)) != 0), "Test differs from the raw bit")
		k := vrt.U32("other_bit")
		vrt.Assume(k < length && k != i)
		other := bf.Test(k)
		bf.Set(i)
		vrt.Assert(bf.Test(i), "Set did not set")
		vrt.Assert(bf.Test(k) == other, "Set changed another bit")
		bf.Clear(i)
		vrt.Assert(bf.Test(k) == other, "Clear changed another bit")
		vrt.Assert(!bf.Test(i), "Clear did not clear")
	}
	if n > 0 && length%8 != 0 {
		last := bf.Bytes()[n-1]
		vrt.Assert(last&(0xff>>(length%8)) == 0, "spare bits of the last byte not cleared")
	}
}

// ZZAllCount: a received bitfield of <= 12 bits: Count() is the number of set
// bits below length and All() holds iff every bit is set.
func ZZAllCount() {
	length := vrt.U32("length")
	vrt.Assume(length >= 1 && length <= 12)
	raw := vrt.Bytes("raw", int((length+7)/8))
	bf, err := NewBytes(raw, length)
	vrt.Assert(err == nil, "NewBytes rejected a bitfield of the right size")
	if err != nil {
		return
	}
	var n uint32
	all := true
	for i := uint32(0); i < 12; i++ {
		if i < length {
			if bf.Test(i) {
				n++
			} else {
				all = false
			}
		}
	}
	vrt.Assert(bf.Count() == n, "Count differs from the number of set bits")
	vrt.Assert(bf.All() == all, "All differs from 'every bit set'")
}
