package piecepicker

import "github.com/cenkalti/rain/v2/internal/webseedsource"

// ZZWebseedOwner: the web-seed source that piece i is assigned to (nil if none).
func (p *PiecePicker) ZZWebseedOwner(i uint32) *webseedsource.WebseedSource {
	return p.pieces[i].RequestedWebseed
}
