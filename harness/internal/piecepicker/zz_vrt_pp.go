package piecepicker

import "github.com/cenkalti/rain/v2/internal/webseedsource"

// ZZWebseedOwner: the web-seed source that piece i is assigned to (nil if none).
func (p *PiecePicker) ZZWebseedOwner(i uint32) *webseedsource.WebseedSource {
	return p.pieces[i].RequestedWebseed
}

// ZZSetMaxWebseedPieces sets the cap on the length of a web-seed range. The
// picker derives it from the piece count (5%, at least 1); fixtures with a
// handful of pieces set it directly - as the repository's own picker tests do -
// so that multi-piece ranges (stealing, truncation) are exercised.
func (p *PiecePicker) ZZSetMaxWebseedPieces(n int) { p.maxWebseedPieces = n }
