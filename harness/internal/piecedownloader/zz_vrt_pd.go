package piecedownloader

import (
	"github.com/cenkalti/rain/v2/internal/bufferpool"
	"github.com/cenkalti/rain/v2/internal/piece"
	vrt "github.com/cenkalti/rain/v2/internal/zzvrt"
)

type zzReq struct{ begin, length uint32 }

type zzPeer struct {
	fast    bool
	reqs    []zzReq
	cancels int
}

func (p *zzPeer) RequestPiece(index, begin, length uint32) {
	p.reqs = append(p.reqs, zzReq{begin, length})
}
func (p *zzPeer) CancelPiece(index, begin, length uint32) { p.cancels++ }
func (p *zzPeer) EnabledFast() bool                       { return p.fast }

func zzNew(maxSec int, maxLen uint32) (*PieceDownloader, *zzPeer, *piece.Piece, []piece.Block, uint32) {
	secs, total := piece.ZZSections(maxSec, maxLen)
	vrt.Assume(total >= 1 && total <= maxLen)
	pi := &piece.Piece{Length: total, Data: secs}
	pool := bufferpool.New(int(total))
	buf := pool.Get(int(total))
	pe := &zzPeer{fast: vrt.Bool("peer_fast_extension")}
	d := New(pi, pe, vrt.Bool("allowed_fast"), buf)
	blocks := pi.CalculateBlocks()
	return d, pe, pi, blocks, total
}

func zzAdversary(maxSec int, maxLen uint32, steps int) {
	d, pe, pi, blocks, total := zzNew(maxSec, maxLen)
	received := make([]bool, len(blocks))
	src := make([][]byte, len(blocks))
	for step := 0; step < steps; step++ {
		switch vrt.Choice("operation", 4) {
		case 0:
			q := vrt.Choice("queue_length", 4)
			nreq := len(pe.reqs)
			d.RequestBlocks(q)
			vrt.Assert(len(d.pending) <= q || len(pe.reqs) == nreq, "more requests in flight than the queue length")
			for _, r := range pe.reqs[nreq:] {
				ok := false
				for _, b := range blocks {
					if b.Begin == r.begin && b.Length == r.length {
						ok = true
					}
				}
				vrt.Assert(ok, "requested a range that is not one of the piece's blocks")
			}
		case 1:
			d.Choked()
		case 2:
			d.Rejected(vrt.U32("reject_begin"), vrt.U32("reject_length"))
		case 3:
			begin := vrt.U32("begin")
			n := vrt.Int("data_len")
			vrt.Assume(n >= 0 && n <= piece.BlockSize+1)
			data := vrt.Bytes("data", n)
			idx := -1
			for i, b := range blocks {
				if b.Begin == begin && b.Length == uint32(n) {
					idx = i
				}
			}
			old := append([]byte(nil), d.Buffer.Data...)
			err := d.GotBlock(begin, data)
			j := vrt.U32("witness_offset")
			vrt.Assume(j < total)
			if idx >= 0 && !received[idx] {
				vrt.Cover(true, "valid new block stored")
				vrt.Assert(err == nil || err == ErrBlockNotRequested, "valid new block refused")
				if j >= begin && j-begin < uint32(n) {
					vrt.Assert(d.Buffer.Data[j] == data[j-begin], "block data not stored at its position")
				} else {
					vrt.Assert(d.Buffer.Data[j] == old[j], "block changed bytes outside its range")
				}
				received[idx] = true
				src[idx] = data
			} else {
				vrt.Cover(idx >= 0, "duplicate block refused")
				vrt.Cover(idx < 0, "invalid block refused")
				vrt.Assert(err != nil, "invalid or duplicate block accepted")
				vrt.Assert(d.Buffer.Data[j] == old[j], "refused block changed the buffer")
			}
		}
		all := true
		for _, r := range received {
			if !r {
				all = false
			}
		}
		vrt.Assert(d.Done() == all, "Done() differs from 'every block received'")
	}
	if d.Done() {
		vrt.Cover(len(blocks) > 0, "piece completed")
		j := vrt.U32("final_witness_offset")
		vrt.Assume(j < total)
		vrt.Assert(uint32(len(d.Buffer.Data)) == pi.Length, "buffer length differs from piece length")
		in := -1
		for i, b := range blocks {
			if j >= b.Begin && j-b.Begin < b.Length {
				in = i
			}
		}
		if in >= 0 {
			vrt.Assert(d.Buffer.Data[j] == src[in][j-blocks[in].Begin], "completed buffer differs from the accepted block data")
		} else {
			vrt.Assert(d.Buffer.Data[j] == 0, "padding byte of a completed buffer is not zero")
		}
	}
}

// ZZAdversaryQuick: <=2 sections, piece <= 32 KiB, 2 adversarial steps.
//
//vrt:cover ZZAdversaryQuick valid new block stored
//vrt:cover ZZAdversaryQuick invalid block refused
//vrt:cover ZZAdversaryQuick duplicate block refused
func ZZAdversaryQuick() { zzAdversary(2, 2*piece.BlockSize, 2) }

// ZZAdversary3: the same with 3 steps.
//
//vrt:cover ZZAdversary3 piece completed
func ZZAdversary3() { zzAdversary(2, 2*piece.BlockSize, 3) }

// ZZAdversaryDeep: <=2 sections, piece <= 32 KiB, 4 steps (completion with duplicates reachable).
//
//vrt:cover ZZAdversaryDeep piece completed
//vrt:cover ZZAdversaryDeep duplicate block refused
func ZZAdversaryDeep() { zzAdversary(2, 2*piece.BlockSize, 4) }

// zzHonest: an honest peer answers every request with exactly the requested
// bytes of the true piece and may choke once mid-piece (see below); the
// download completes within #blocks+3 rounds and
// the assembled buffer equals the true content (padding = zero).
func zzHonest(maxSec int, maxLen uint32) {
	d, pe, _, blocks, total := zzNew(maxSec, maxLen)
	truth := vrt.Bytes("true_piece_content", int(total))
	q := vrt.Choice("queue_length", 3) + 1
	// the honest source may choke us once, at an arbitrary round, after serving an
	// arbitrary part of what was requested in that round; one more requested
	// block may already be on the wire and still arrive; the rest is dropped
	// (a fast-extension peer rejects it instead). It unchokes afterwards.
	chokeRound := vrt.Choice("choke_in_round", 4) // 0 = never
	served := 0
	rounds := 0
	for !d.Done() {
		rounds++
		vrt.Assert(rounds <= len(blocks)+3, "honest download does not complete")
		if rounds > len(blocks)+3 {
			return
		}
		d.RequestBlocks(q)
		vrt.Assert(len(pe.reqs) > served, "no progress: nothing requested although the piece is incomplete")
		if rounds == chokeRound && !d.AllowedFast { // (an allowed-fast download is served regardless of choking)
			vrt.Cover(true, "honest source chokes mid-piece")
			keep := vrt.Choice("served_before_choke", 3)
			for ; served < len(pe.reqs) && keep > 0; served, keep = served+1, keep-1 {
				r := pe.reqs[served]
				vrt.Assert(d.GotBlock(r.begin, truth[r.begin:r.begin+r.length]) == nil, "honest block refused")
			}
			d.Choked()
			if served < len(pe.reqs) && vrt.Bool("one_block_already_on_the_wire") {
				r := pe.reqs[served]
				served++
				err := d.GotBlock(r.begin, truth[r.begin:r.begin+r.length])
				vrt.Assert(err == nil || err == ErrBlockNotRequested, "honest late block refused as invalid")
			}
			for ; served < len(pe.reqs); served++ {
				if pe.fast {
					r := pe.reqs[served]
					d.Rejected(r.begin, r.length)
				}
			}
			continue
		}
		for ; served < len(pe.reqs); served++ {
			r := pe.reqs[served]
			err := d.GotBlock(r.begin, truth[r.begin:r.begin+r.length])
			vrt.Assert(err == nil, "honest block refused")
		}
	}
	vrt.Cover(len(blocks) == 0, "piece made only of padding")
	vrt.Cover(len(blocks) >= 2, "several blocks")
	j := vrt.U32("witness_offset")
	vrt.Assume(j < total)
	if piece.ZZInNonPadding(d.Piece.Data, j) {
		vrt.Assert(d.Buffer.Data[j] == truth[j], "assembled buffer differs from the true content")
	} else {
		vrt.Assert(d.Buffer.Data[j] == 0, "padding byte not zero")
	}
}

// ZZHonestPiece: <=3 sections, piece <= 64 KiB.
//
//vrt:cover ZZHonestPiece piece made only of padding
//vrt:cover ZZHonestPiece several blocks
func ZZHonestPiece() { zzHonest(3, 4*piece.BlockSize) }

// ZZHonestPieceQuick: <=2 sections, piece <= 32 KiB.
//
//vrt:cover ZZHonestPieceQuick piece made only of padding
//vrt:cover ZZHonestPieceQuick several blocks
//vrt:cover ZZHonestPieceQuick honest source chokes mid-piece
func ZZHonestPieceQuick() { zzHonest(2, 2*piece.BlockSize) }
