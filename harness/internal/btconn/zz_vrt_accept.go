package btconn

import (
	"bytes"
	"io"
	"time"

	"github.com/cenkalti/rain/v2/internal/mse"
	vrt "github.com/cenkalti/rain/v2/internal/zzvrt"
)

// The acceptor side of the encryption policy: the real btconn.Accept (with the
// real mse.HandshakeIncoming underneath) against a remote peer that either
// dials in cleartext or runs the real mse.HandshakeOutgoing offering
// {plaintext, RC4, both}; crypto replaced by the algebraic model of the mse
// harness (opaque key exchange, XOR with a fixed keystream).
//
//vrt:use internal/mse

// ZZAcceptPolicy: with incoming encryption forced, a connection is accepted
// only if RC4 was negotiated - a cleartext dial or a plaintext-only offer is
// refused and never answered with a cleartext handshake; without forcing, a
// cleartext dial is accepted as cleartext, a plaintext-only offer selects
// plaintext, and RC4 is preferred whenever offered. The handshake fields the
// acceptor reports are the ones the peer sent; the peer reads the acceptor's
// handshake back unchanged.
//
//vrt:cover ZZAcceptPolicy forced and cleartext dial refused
//vrt:cover ZZAcceptPolicy forced and rc4 accepted
//vrt:cover ZZAcceptPolicy plaintext selected
//vrt:cover ZZAcceptPolicy cleartext accepted
func ZZAcceptPolicy() {
	mse.ZZModelInit()
	var ih, peerID, ourID [20]byte
	var ext, ourExt [8]byte
	copy(ih[:], vrt.Bytes("info_hash", 20))
	copy(peerID[:], vrt.Bytes("peer_id", 20))
	copy(ext[:], vrt.Bytes("peer_extensions", 8))
	ourID[0], peerID[0] = 1, 2 // not a connection to ourselves
	force := vrt.Bool("force_incoming_encryption")
	ca, cb := vrt.NewPipe()
	var hs bytes.Buffer
	_ = writeHandshake(&hs, ih, peerID, ext)
	cleartext := vrt.Bool("peer_dials_in_cleartext")
	provide := mse.CryptoMethod(vrt.Choice("crypto_provide", 3) + 1)

	type peerResult struct {
		cipher mse.CryptoMethod
		err    error
		reply  []byte
	}
	resC := make(chan peerResult, 1)
	go func() {
		var r peerResult
		var rw io.ReadWriter = ca
		if cleartext {
			_, r.err = ca.Write(hs.Bytes())
		} else {
			enc := mse.WrapConn(ca)
			r.cipher, r.err = enc.HandshakeOutgoing(ih[:], provide, hs.Bytes())
			rw = enc
		}
		if r.err == nil {
			r.reply = make([]byte, 68)
			if _, err := io.ReadFull(rw, r.reply); err != nil {
				r.reply, r.err = nil, err
			}
		}
		if r.err != nil {
			ca.Close()
		}
		resC <- r
	}()

	getSKey := func(h [20]byte) []byte {
		if h == mse.HashSKey(ih[:]) {
			return ih[:]
		}
		return nil
	}
	conn, cipher, gotExt, gotID, gotIH, err := Accept(cb, time.Second, getSKey, force, func(h [20]byte) bool { return h == ih }, ourExt, ourID)
	if err != nil {
		cb.Close()
	} else {
		// the acceptor's side continues with its peer id already sent by Accept; nothing more to do
		_ = conn
	}
	r := <-resC

	if force {
		if err == nil {
			vrt.Cover(true, "forced and rc4 accepted")
			vrt.Assert(cipher == mse.RC4 && !cleartext && provide&mse.RC4 != 0, "connection accepted without RC4 although incoming encryption is forced")
		}
		if cleartext {
			vrt.Cover(true, "forced and cleartext dial refused")
			vrt.Assert(err != nil, "cleartext connection accepted although incoming encryption is forced")
			vrt.Assert(cb.Wrote == 0, "cleartext handshake sent in reply although incoming encryption is forced")
		}
	} else {
		if cleartext {
			vrt.Cover(err == nil, "cleartext accepted")
			vrt.Assert(err == nil && cipher == 0, "cleartext dial refused although encryption is not forced")
		} else {
			vrt.Assert(err == nil, "encrypted dial refused although it offers an acceptable method")
			if err == nil {
				want := mse.PlainText
				if provide&mse.RC4 != 0 {
					want = mse.RC4
				}
				vrt.Cover(want == mse.PlainText, "plaintext selected")
				vrt.Assert(cipher == want && r.err == nil && r.cipher == want, "RC4 not preferred / the sides disagree on the method")
			}
		}
	}
	if err == nil {
		vrt.Assert(gotIH == ih && gotID == peerID && gotExt == ext, "handshake fields reported by Accept differ from what the peer sent")
		vrt.Assert(r.err == nil && len(r.reply) == 68, "peer did not get the acceptor's handshake")
		if len(r.reply) == 68 {
			k := vrt.Choice("witness_reply_byte", 3)
			pos := []int{0, 28, 48}[k]
			wantB := []byte{19, ih[0], ourID[0]}[k]
			vrt.Assert(r.reply[pos] == wantB, "acceptor's handshake not read back unchanged by the peer")
		}
	}
}
