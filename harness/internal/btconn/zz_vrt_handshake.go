package btconn

import (
	"bytes"

	vrt "github.com/cenkalti/rain/v2/internal/zzvrt"
)

// ZZHandshakeLayout: the handshake written is 0x13 "BitTorrent protocol"
// <8 reserved bytes> <20-byte info-hash> <20-byte peer id>, and reading it back
// under arbitrary fragmentation returns the same fields; a wrong protocol
// string is refused.
//
//vrt:cover ZZHandshakeLayout fragmented read
func ZZHandshakeLayout() {
	var ih, id [20]byte
	var ext [8]byte
	copy(ih[:], vrt.Bytes("info_hash", 20))
	copy(id[:], vrt.Bytes("peer_id", 20))
	copy(ext[:], vrt.Bytes("extensions", 8))
	var buf bytes.Buffer
	err := writeHandshake(&buf, ih, id, ext)
	vrt.Assert(err == nil, "writeHandshake failed")
	out := buf.Bytes()
	vrt.Assert(len(out) == 68, "handshake is not 68 bytes")
	if len(out) != 68 {
		return
	}
	const proto = "\x13BitTorrent protocol"
	k := vrt.Choice("witness_byte", 68)
	switch {
	case k < 20:
		vrt.Assert(out[k] == proto[k], "protocol string wrong")
	case k < 28:
		vrt.Assert(out[k] == ext[k-20], "reserved bytes wrong")
	case k < 48:
		vrt.Assert(out[k] == ih[k-28], "info-hash wrong")
	default:
		vrt.Assert(out[k] == id[k-48], "peer id wrong")
	}
	conn := &vrt.Conn{In: out}
	switch vrt.Choice("fragmentation", 3) {
	case 1:
		conn.OneByOne = true
	case 2:
		conn.Split = vrt.Choice("split_point", 67) + 1
		vrt.Cover(true, "fragmented read")
	}
	ext2, ih2, err := readHandshake1(conn)
	vrt.Assert(err == nil, "readHandshake1 refused our own handshake")
	id2, err2 := readHandshake2(conn)
	vrt.Assert(err2 == nil, "readHandshake2 failed")
	vrt.Assert(ext2 == ext && ih2 == ih && id2 == id, "handshake fields do not round-trip")
}

// ZZHandshakeRejectsOtherProtocol: any first 20 bytes other than the protocol string are refused.
func ZZHandshakeRejectsOtherProtocol() {
	in := vrt.Bytes("stream", 68)
	conn := &vrt.Conn{In: in}
	_, _, err := readHandshake1(conn)
	same := true
	const proto = "\x13BitTorrent protocol"
	for i := 0; i < 20; i++ {
		if in[i] != proto[i] {
			same = false
		}
	}
	vrt.Assert((err == nil) == same, "handshake accepted iff it starts with the protocol string")
}
