package boltdbresumer

import (
	"errors"
	"time"

	vrt "github.com/cenkalti/rain/v2/internal/zzvrt"
	"go.etcd.io/bbolt"
)

// bbolt is replaced by its contract: a transaction runs its function once;
// buckets are key/value maps with nested buckets; Put stores a copy, Get returns
// what was stored last. (Crash atomicity and the file format are bbolt's.)
type zzBkt struct {
	kv   map[string][]byte
	subs map[string]*bbolt.Bucket
}

var (
	zzBuckets map[*bbolt.Bucket]*zzBkt
	zzRoot    *bbolt.Bucket
)

func zzNewBucket() *bbolt.Bucket {
	b := &bbolt.Bucket{}
	zzBuckets[b] = &zzBkt{kv: map[string][]byte{}, subs: map[string]*bbolt.Bucket{}}
	return b
}

//vrt:replace (*go.etcd.io/bbolt.DB).Update github.com/cenkalti/rain/v2/internal/resumer/boltdbresumer.zzUpdate
func zzUpdate(db *bbolt.DB, fn func(*bbolt.Tx) error) error { return fn(&bbolt.Tx{}) }

//vrt:replace (*go.etcd.io/bbolt.Tx).Bucket github.com/cenkalti/rain/v2/internal/resumer/boltdbresumer.zzTxBucket
func zzTxBucket(tx *bbolt.Tx, name []byte) *bbolt.Bucket { return zzRoot }

//vrt:replace (*go.etcd.io/bbolt.Tx).CreateBucketIfNotExists github.com/cenkalti/rain/v2/internal/resumer/boltdbresumer.zzTxCreate
func zzTxCreate(tx *bbolt.Tx, name []byte) (*bbolt.Bucket, error) { return zzRoot, nil }

//vrt:replace (*go.etcd.io/bbolt.Bucket).CreateBucketIfNotExists github.com/cenkalti/rain/v2/internal/resumer/boltdbresumer.zzCreate
func zzCreate(b *bbolt.Bucket, key []byte) (*bbolt.Bucket, error) {
	m := zzBuckets[b]
	if s, ok := m.subs[string(key)]; ok {
		return s, nil
	}
	s := zzNewBucket()
	m.subs[string(key)] = s
	return s, nil
}

//vrt:replace (*go.etcd.io/bbolt.Bucket).Bucket github.com/cenkalti/rain/v2/internal/resumer/boltdbresumer.zzSub
func zzSub(b *bbolt.Bucket, key []byte) *bbolt.Bucket { return zzBuckets[b].subs[string(key)] }

//vrt:replace (*go.etcd.io/bbolt.Bucket).Put github.com/cenkalti/rain/v2/internal/resumer/boltdbresumer.zzPut
func zzPut(b *bbolt.Bucket, key, value []byte) error {
	zzBuckets[b].kv[string(key)] = append([]byte{}, value...)
	return nil
}

//vrt:replace (*go.etcd.io/bbolt.Bucket).Get github.com/cenkalti/rain/v2/internal/resumer/boltdbresumer.zzGet
func zzGet(b *bbolt.Bucket, key []byte) []byte { return zzBuckets[b].kv[string(key)] }

// encoding/json (reflection) is replaced by an opaque, faithful encoding: the
// value is remembered under a one-byte token.
var zzJSON []any

//vrt:replace encoding/json.Marshal github.com/cenkalti/rain/v2/internal/resumer/boltdbresumer.zzMarshal
func zzMarshal(v any) ([]byte, error) {
	zzJSON = append(zzJSON, v)
	return []byte{byte(len(zzJSON))}, nil
}

//vrt:replace encoding/json.Unmarshal github.com/cenkalti/rain/v2/internal/resumer/boltdbresumer.zzUnmarshal
func zzUnmarshal(data []byte, v any) error {
	if len(data) != 1 || int(data[0]) == 0 || int(data[0]) > len(zzJSON) {
		return errors.New("zz: not a token")
	}
	src := zzJSON[data[0]-1]
	switch p := v.(type) {
	case *[][]string:
		s, ok := src.([][]string)
		if !ok {
			return errors.New("zz: type mismatch")
		}
		*p = s
	case *[]string:
		s, ok := src.([]string)
		if !ok {
			return errors.New("zz: type mismatch")
		}
		*p = s
	default:
		return errors.New("zz: unexpected target")
	}
	return nil
}

//vrt:replace runtime/debug.SetPanicOnFault github.com/cenkalti/rain/v2/internal/resumer/boltdbresumer.zzSetPanicOnFault
func zzSetPanicOnFault(enabled bool) bool { return false }

// zzCounter: a transfer counter at a power-of-two boundary (2^k or 2^k-1, k <
// 63): every integer-width boundary a parser could trip over.
func zzCounter(name string) int64 {
	k := vrt.Choice(name+"_bits", 63)
	v := int64(1) << uint(k)
	if vrt.Choice(name+"_minus_one", 2) == 1 { // (Choice, not Bool: the value must stay concrete for the decimal formatter)
		v--
	}
	return v
}

// ZZResumeRoundTrip: a torrent record written with Write and read back with
// Read (bbolt as a key/value contract, JSON as an opaque faithful encoding):
// every field reads back equal to what was written - arbitrary info-hash,
// info and bitfield bytes, flags, version; port at the range boundaries;
// one of the three transfer counters at a power-of-two boundary; seeding time
// a concrete duration.
//
//vrt:cover ZZResumeRoundTrip counter of at least 2^31
func ZZResumeRoundTrip() {
	zzBuckets = map[*bbolt.Bucket]*zzBkt{}
	zzJSON = nil
	zzRoot = zzNewBucket()
	r, err := New(&bbolt.DB{}, []byte("torrents"))
	vrt.Assert(err == nil && r != nil, "New failed")
	spec := &Spec{
		InfoHash:        vrt.Bytes("info_hash", 20),
		Port:            50000,
		Name:            "a name",
		Trackers:        [][]string{{"http://a/announce", "udp://b:1"}, {"http://c"}},
		URLList:         []string{"http://ws/"},
		FixedPeers:      []string{"1.2.3.4:5"},
		Info:            vrt.Bytes("info", 4),
		Bitfield:        vrt.Bytes("bitfield", 2),
		BytesDownloaded: 1,
		BytesUploaded:   2,
		BytesWasted:     3,
		SeededFor:       90 * time.Minute,
		Version:         2,
	}
	// one aspect at a time takes all its values (the fields are independent keys)
	switch vrt.Choice("varied_aspect", 5) {
	case 0:
		c := zzCounter("counter")
		vrt.Cover(c >= 1<<31, "counter of at least 2^31")
		switch vrt.Choice("which_counter", 3) {
		case 0:
			spec.BytesDownloaded = c
		case 1:
			spec.BytesUploaded = c
		case 2:
			spec.BytesWasted = c
		}
	case 1:
		spec.Port = []int{0, 1, 65535}[vrt.Choice("port", 3)]
	case 2:
		spec.SeededFor = []time.Duration{0, 1500 * time.Millisecond, 1<<62 + 12345}[vrt.Choice("seeded_for", 3)]
	case 3:
		spec.Version = vrt.Choice("version", 4)
	case 4:
		spec.Started = vrt.Bool("started")
		spec.StopAfterDownload = vrt.Bool("stop_after_download")
		spec.StopAfterMetadata = vrt.Bool("stop_after_metadata")
		spec.CompleteCmdRun = vrt.Bool("complete_cmd_run")
		spec.Sequential = vrt.Bool("sequential")
	}
	vrt.Assert(r.Write("id1", spec) == nil, "Write failed")
	got, err := r.Read("id1")
	if err != nil {
		vrt.Note("read error: " + err.Error())
	}
	vrt.Assert(err == nil && got != nil, "a record that was just written cannot be read back")
	if err != nil || got == nil {
		return
	}
	wantVersion := spec.Version
	if wantVersion == 0 {
		wantVersion = LatestVersion
	}
	vrt.Assert(got.Port == spec.Port && got.Name == spec.Name && got.Version == wantVersion, "port, name or version differs after the round trip")
	vrt.Assert(got.BytesDownloaded == spec.BytesDownloaded && got.BytesUploaded == spec.BytesUploaded && got.BytesWasted == spec.BytesWasted, "a transfer counter differs after the round trip")
	vrt.Assert(got.SeededFor == spec.SeededFor, "seeding time differs after the round trip")
	vrt.Assert(got.Started == spec.Started && got.StopAfterDownload == spec.StopAfterDownload && got.StopAfterMetadata == spec.StopAfterMetadata && got.CompleteCmdRun == spec.CompleteCmdRun && got.Sequential == spec.Sequential, "a flag differs after the round trip")
	vrt.Assert(len(got.InfoHash) == 20 && len(got.Info) == 4 && len(got.Bitfield) == 2, "byte field length differs after the round trip")
	if len(got.InfoHash) == 20 && len(got.Info) == 4 && len(got.Bitfield) == 2 {
		k := vrt.Choice("witness_byte", 20)
		vrt.Assert(got.InfoHash[k] == spec.InfoHash[k] && got.Info[k%4] == spec.Info[k%4] && got.Bitfield[k%2] == spec.Bitfield[k%2], "info-hash, info or bitfield bytes differ after the round trip")
	}
	vrt.Assert(len(got.Trackers) == 2 && len(got.Trackers[0]) == 2 && got.Trackers[0][1] == "udp://b:1" && got.Trackers[1][0] == "http://c", "tracker tiers differ after the round trip")
	vrt.Assert(len(got.URLList) == 1 && got.URLList[0] == "http://ws/" && len(got.FixedPeers) == 1 && got.FixedPeers[0] == "1.2.3.4:5", "web seeds or fixed peers differ after the round trip")
	vrt.Assert(got.AddedAt.Equal(spec.AddedAt), "added-at time differs after the round trip")
	// single-field updates
	vrt.Assert(r.WriteStarted("id1", !spec.Started) == nil, "WriteStarted failed")
	bf := vrt.Bytes("bitfield2", 2)
	vrt.Assert(r.WriteBitfield("id1", bf) == nil, "WriteBitfield failed")
	got2, err := r.Read("id1")
	vrt.Assert(err == nil && got2 != nil && got2.Started == !spec.Started && len(got2.Bitfield) == 2 && got2.Bitfield[0] == bf[0] && got2.Bitfield[1] == bf[1], "single-field update not read back")
	if got2 != nil {
		vrt.Assert(got2.BytesUploaded == spec.BytesUploaded && got2.Port == spec.Port, "single-field update disturbed another field")
	}
}

// ZZModelReset empties the key/value model of bbolt (used by the session harness).
func ZZModelReset() {
	zzBuckets = map[*bbolt.Bucket]*zzBkt{}
	zzJSON = nil
	zzRoot = zzNewBucket()
}

// ZZResumeFieldUpdates: on a record whose five flags are arbitrary, each
// single-field updater (WriteStarted, HandleStopAfterDownload,
// HandleStopAfterMetadata, WriteCompleteCmdRun, WriteInfo, WriteBitfield)
// changes exactly the fields it documents and leaves every other field as
// written: what a restart reads is what the running torrent holds in memory.
//
//vrt:cover ZZResumeFieldUpdates stop-after-metadata handled with stop-after-download set
//vrt:cover ZZResumeFieldUpdates stop-after-download handled with stop-after-metadata set
func ZZResumeFieldUpdates() {
	zzBuckets = map[*bbolt.Bucket]*zzBkt{}
	zzJSON = nil
	zzRoot = zzNewBucket()
	r, err := New(&bbolt.DB{}, []byte("torrents"))
	vrt.Assert(err == nil && r != nil, "New failed")
	spec := &Spec{
		InfoHash:          vrt.Bytes("info_hash", 20),
		Port:              50000,
		Name:              "a name",
		Trackers:          [][]string{{"http://a/announce"}},
		Info:              vrt.Bytes("info", 2),
		Bitfield:          vrt.Bytes("bitfield", 2),
		BytesDownloaded:   1,
		BytesUploaded:     2,
		BytesWasted:       3,
		Version:           2,
		Started:           vrt.Bool("started"),
		StopAfterDownload: vrt.Bool("stop_after_download"),
		StopAfterMetadata: vrt.Bool("stop_after_metadata"),
		CompleteCmdRun:    vrt.Bool("complete_cmd_run"),
		Sequential:        vrt.Bool("sequential"),
	}
	vrt.Assert(r.Write("id1", spec) == nil, "Write failed")
	want := *spec
	nb := vrt.Bytes("new_bytes", 2)
	switch vrt.Choice("updater", 6) {
	case 0:
		v := vrt.Bool("new_started")
		vrt.Assert(r.WriteStarted("id1", v) == nil, "WriteStarted failed")
		want.Started = v
	case 1:
		vrt.Cover(spec.StopAfterMetadata, "stop-after-download handled with stop-after-metadata set")
		vrt.Assert(r.HandleStopAfterDownload("id1") == nil, "HandleStopAfterDownload failed")
		want.Started, want.StopAfterDownload = false, false
	case 2:
		vrt.Cover(spec.StopAfterDownload, "stop-after-metadata handled with stop-after-download set")
		vrt.Assert(r.HandleStopAfterMetadata("id1") == nil, "HandleStopAfterMetadata failed")
		want.Started, want.StopAfterMetadata = false, false
	case 3:
		vrt.Assert(r.WriteCompleteCmdRun("id1") == nil, "WriteCompleteCmdRun failed")
		want.CompleteCmdRun = true
	case 4:
		vrt.Assert(r.WriteInfo("id1", nb) == nil, "WriteInfo failed")
		want.Info = nb
	case 5:
		vrt.Assert(r.WriteBitfield("id1", nb) == nil, "WriteBitfield failed")
		want.Bitfield = nb
	}
	got, err := r.Read("id1")
	vrt.Assert(err == nil && got != nil, "an updated record cannot be read back")
	if err != nil || got == nil {
		return
	}
	vrt.Assert(got.Started == want.Started, "started flag after a single-field update is not the documented one")
	vrt.Assert(got.StopAfterDownload == want.StopAfterDownload, "stop-after-download flag after a single-field update is not the documented one")
	vrt.Assert(got.StopAfterMetadata == want.StopAfterMetadata, "stop-after-metadata flag after a single-field update is not the documented one")
	vrt.Assert(got.CompleteCmdRun == want.CompleteCmdRun && got.Sequential == want.Sequential, "complete-cmd-run or sequential flag disturbed by a single-field update")
	vrt.Assert(len(got.Info) == 2 && got.Info[0] == want.Info[0] && got.Info[1] == want.Info[1], "info bytes after a single-field update are not the documented ones")
	vrt.Assert(len(got.Bitfield) == 2 && got.Bitfield[0] == want.Bitfield[0] && got.Bitfield[1] == want.Bitfield[1], "bitfield after a single-field update is not the documented one")
	vrt.Assert(got.Port == want.Port && got.Name == want.Name && got.Version == want.Version && got.BytesDownloaded == 1 && got.BytesUploaded == 2 && got.BytesWasted == 3, "port, name, version or a counter disturbed by a single-field update")
	vrt.Assert(len(got.InfoHash) == 20 && got.InfoHash[0] == spec.InfoHash[0] && got.InfoHash[19] == spec.InfoHash[19], "info-hash disturbed by a single-field update")
}
