package piece

import (
	"github.com/cenkalti/rain/v2/internal/allocator"
	"github.com/cenkalti/rain/v2/internal/filesection"
	"github.com/cenkalti/rain/v2/internal/metainfo"
	vrt "github.com/cenkalti/rain/v2/internal/zzvrt"
)

// zzSections builds a piece of 1..maxSec sections with symbolic lengths
// (each <= maxLen) and symbolic padding flags.
func zzSections(maxSec int, maxLen uint32) (filesection.Piece, uint32) {
	return ZZSections(maxSec, maxLen)
}

// ZZSections is zzSections for harnesses of other packages.
func ZZSections(maxSec int, maxLen uint32) (filesection.Piece, uint32) {
	nsec := vrt.Choice("nsec", maxSec) + 1
	var secs filesection.Piece
	var total uint32
	for i := 0; i < nsec; i++ {
		l := vrt.U32("seclen")
		vrt.Assume(l <= maxLen)
		pad := vrt.Bool("padding")
		secs = append(secs, filesection.FileSection{Length: int64(l), Padding: pad})
		total += l
	}
	return secs, total
}

// zzInNonPadding reports whether piece offset x lies in a non-padding section.
func zzInNonPadding(secs filesection.Piece, x uint32) bool { return ZZInNonPadding(secs, x) }

// ZZInNonPadding reports whether piece offset x lies in a non-padding section.
func ZZInNonPadding(secs filesection.Piece, x uint32) bool {
	var pos uint32
	for _, s := range secs {
		end := pos + uint32(s.Length)
		if x >= pos && x < end {
			return !s.Padding
		}
		pos = end
	}
	return false
}

func zzCheckBlocks(secs filesection.Piece, total uint32, blocks []Block, bs uint32) {
	x := vrt.U32("witness_offset")
	vrt.Assume(x < total)
	inBlock := false
	for i, b := range blocks {
		vrt.Assert(b.Length > 0, "block has zero length")
		vrt.Assert(b.Length <= bs, "block longer than block size")
		vrt.Assert(b.Begin < total && b.Length <= total-b.Begin, "block outside piece")
		if i > 0 {
			prev := blocks[i-1]
			vrt.Assert(prev.Begin+prev.Length <= b.Begin, "blocks overlap or out of order")
		}
		if x >= b.Begin && x-b.Begin < b.Length {
			inBlock = true
		}
	}
	want := zzInNonPadding(secs, x)
	vrt.Assert(!inBlock || want, "a block covers a padding byte")
	vrt.Assert(inBlock || !want, "a non-padding byte is covered by no block")
}

// ZZBlocksTileSmall: calculateBlocks with a small symbolic block size, to reach
// every coincidence of section end / block end / padding start cheaply.
//
//vrt:cover ZZBlocksTileSmall padding at block start
//vrt:cover ZZBlocksTileSmall padding in the middle of a block
//vrt:cover ZZBlocksTileSmall zero-length section
func ZZBlocksTileSmall() {
	secs, total := zzSections(3, 8)
	bs := vrt.U32("blocksize")
	vrt.Assume(bs >= 1 && bs <= 4)
	vrt.Assume(total >= 1)
	p := &Piece{Length: total, Data: secs}
	// covers
	if len(secs) >= 2 {
		l0 := uint32(secs[0].Length)
		vrt.Cover(secs[1].Padding && !secs[0].Padding && secs[1].Length > 0 && l0 > 0 && l0%bs == 0, "padding at block start")
		vrt.Cover(secs[1].Padding && !secs[0].Padding && secs[1].Length > 0 && l0%bs != 0, "padding in the middle of a block")
		vrt.Cover(secs[0].Length == 0, "zero-length section")
	}
	blocks := p.calculateBlocks(bs)
	zzCheckBlocks(secs, total, blocks, bs)
}

// ZZBlocksTileReal: CalculateBlocks with the real 16 KiB block size, piece <= 64 KiB.
//
//vrt:cover ZZBlocksTileReal padding at block start
func ZZBlocksTileReal() {
	secs, total := zzSections(3, 65536)
	vrt.Assume(total >= 1 && total <= 65536)
	p := &Piece{Length: total, Data: secs}
	if len(secs) >= 2 {
		l0 := uint32(secs[0].Length)
		vrt.Cover(secs[1].Padding && !secs[0].Padding && secs[1].Length > 0 && l0 > 0 && l0%BlockSize == 0, "padding at block start")
	}
	blocks := p.CalculateBlocks()
	zzCheckBlocks(secs, total, blocks, BlockSize)
}

// zzFlatFile returns, for absolute torrent offset x (a byte of the
// concatenation of all files), the index of the file containing it and the
// offset inside that file.
func zzFlatFile(info *metainfo.Info, x int64) (int, int64) {
	var pos int64
	for i, f := range info.Files {
		if x >= pos && x-pos < f.Length {
			return i, x - pos
		}
		pos += f.Length
	}
	return -1, 0
}

//vrt:use internal/metainfo

// ZZNewPiecesTile: for every info dictionary NewInfo accepts (<=3 files,
// <=3 pieces, all lengths symbolic), NewPieces terminates without panic and
// the pieces' sections enumerate the concatenation of all files exactly once.
//
//vrt:cover ZZNewPiecesTile a piece spans two files
//vrt:cover ZZNewPiecesTile a zero-length file
//vrt:cover ZZNewPiecesTile last piece is shorter
func ZZNewPiecesTile() { zzNewPiecesTile(3, 3) }

// ZZNewPiecesTileSmall is the same check with <=2 files and <=2 pieces (quick tier).
//
//vrt:cover ZZNewPiecesTileSmall a piece spans two files
//vrt:cover ZZNewPiecesTileSmall a zero-length file
//vrt:cover ZZNewPiecesTileSmall last piece is shorter
func ZZNewPiecesTileSmall() { zzNewPiecesTile(2, 2) }

func zzNewPiecesTile(maxFiles, maxPieces int) {
	info, err, _ := metainfo.ZZSymbolicInfo(maxFiles, maxPieces, true)
	if err != nil {
		return
	}
	files := make([]allocator.File, len(info.Files))
	for i, f := range info.Files {
		files[i] = allocator.File{Name: f.Path, Padding: f.Padding}
	}
	pieces := NewPieces(info, files)
	vrt.Assert(uint32(len(pieces)) == info.NumPieces, "wrong number of pieces")
	x := vrt.I64("witness_torrent_offset")
	vrt.Assume(x >= 0 && x < info.Length)
	wantFile, wantOff := zzFlatFile(info, x)
	found := 0
	var pos int64 // absolute offset of the current section
	for i := range pieces {
		p := &pieces[i]
		vrt.Assert(p.Index == uint32(i), "piece index wrong")
		if uint32(i) < info.NumPieces-1 {
			vrt.Assert(p.Length == info.PieceLength, "non-last piece does not have the piece length")
		} else {
			vrt.Assert(p.Length > 0 && p.Length <= info.PieceLength, "last piece empty or too long")
			vrt.Cover(p.Length < info.PieceLength, "last piece is shorter")
		}
		vrt.Assert(pos == int64(i)*int64(info.PieceLength), "piece does not start at index*pieceLength")
		var plen int64
		vrt.Cover(len(p.Data) >= 2 && p.Data[0].Length > 0 && p.Data[1].Length > 0, "a piece spans two files")
		for _, s := range p.Data {
			vrt.Assert(s.Length >= 0, "negative section length")
			vrt.Cover(s.Length == 0, "a zero-length file")
			if x >= pos && x-pos < s.Length {
				found++
				// which file is it? sections carry the file name
				vrt.Assert(wantFile >= 0 && s.Name == info.Files[wantFile].Path, "section maps to the wrong file")
				vrt.Assert(s.Offset+(x-pos) == wantOff, "section maps to the wrong file offset")
				vrt.Assert(wantFile >= 0 && s.Padding == info.Files[wantFile].Padding, "section padding flag differs from file")
			}
			pos += s.Length
			plen += s.Length
		}
		vrt.Assert(plen == int64(p.Length), "sections do not add up to the piece length")
	}
	vrt.Assert(pos == info.Length, "pieces do not cover the total length")
	vrt.Assert(found == 1, "a torrent byte is not covered exactly once")
}
