package piece

import (
	"github.com/cenkalti/rain/v2/internal/filesection"
	vrt "github.com/cenkalti/rain/v2/internal/zzvrt"
)

// zzSections builds a piece of 1..maxSec sections with symbolic lengths
// (each <= maxLen) and symbolic padding flags.
func zzSections(maxSec int, maxLen uint32) (filesection.Piece, uint32) {
	nsec := vrt.Choice("nsec", maxSec) + 1
	var secs filesection.Piece
	var total uint32
	for i := 0; i < nsec; i++ {
		l := vrt.U32("seclen")
		vrt.Assume(l <= maxLen)
		pad := vrt.Bool("padding")
		secs = append(secs, filesection.FileSection{Length: int64(l), Padding: pad})
		total += l
	}
	return secs, total
}

// zzInNonPadding reports whether piece offset x lies in a non-padding section.
func zzInNonPadding(secs filesection.Piece, x uint32) bool {
	var pos uint32
	for _, s := range secs {
		end := pos + uint32(s.Length)
		if x >= pos && x < end {
			return !s.Padding
		}
		pos = end
	}
	return false
}

func zzCheckBlocks(secs filesection.Piece, total uint32, blocks []Block, bs uint32) {
	x := vrt.U32("witness_offset")
	vrt.Assume(x < total)
	inBlock := false
	for i, b := range blocks {
		vrt.Assert(b.Length > 0, "block has zero length")
		vrt.Assert(b.Length <= bs, "block longer than block size")
		vrt.Assert(b.Begin < total && b.Length <= total-b.Begin, "block outside piece")
		if i > 0 {
			prev := blocks[i-1]
			vrt.Assert(prev.Begin+prev.Length <= b.Begin, "blocks overlap or out of order")
		}
		if x >= b.Begin && x-b.Begin < b.Length {
			inBlock = true
		}
	}
	want := zzInNonPadding(secs, x)
	vrt.Assert(!inBlock || want, "a block covers a padding byte")
	vrt.Assert(inBlock || !want, "a non-padding byte is covered by no block")
}

// ZZBlocksTileSmall: calculateBlocks with a small symbolic block size, to reach
// every coincidence of section end / block end / padding start cheaply.
//
//vrt:cover ZZBlocksTileSmall padding at block start
//vrt:cover ZZBlocksTileSmall padding in the middle of a block
//vrt:cover ZZBlocksTileSmall zero-length section
func ZZBlocksTileSmall() {
	secs, total := zzSections(3, 8)
	bs := vrt.U32("blocksize")
	vrt.Assume(bs >= 1 && bs <= 4)
	vrt.Assume(total >= 1)
	p := &Piece{Length: total, Data: secs}
	// covers
	if len(secs) >= 2 {
		l0 := uint32(secs[0].Length)
		vrt.Cover(secs[1].Padding && !secs[0].Padding && secs[1].Length > 0 && l0 > 0 && l0%bs == 0, "padding at block start")
		vrt.Cover(secs[1].Padding && !secs[0].Padding && secs[1].Length > 0 && l0%bs != 0, "padding in the middle of a block")
		vrt.Cover(secs[0].Length == 0, "zero-length section")
	}
	blocks := p.calculateBlocks(bs)
	zzCheckBlocks(secs, total, blocks, bs)
}

// ZZBlocksTileReal: CalculateBlocks with the real 16 KiB block size, piece <= 64 KiB.
//
//vrt:cover ZZBlocksTileReal padding at block start
func ZZBlocksTileReal() {
	secs, total := zzSections(3, 65536)
	vrt.Assume(total >= 1 && total <= 65536)
	p := &Piece{Length: total, Data: secs}
	if len(secs) >= 2 {
		l0 := uint32(secs[0].Length)
		vrt.Cover(secs[1].Padding && !secs[0].Padding && secs[1].Length > 0 && l0 > 0 && l0%BlockSize == 0, "padding at block start")
	}
	blocks := p.CalculateBlocks()
	zzCheckBlocks(secs, total, blocks, BlockSize)
}
