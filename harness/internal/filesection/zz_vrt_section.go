package filesection

import (
	"github.com/cenkalti/rain/v2/internal/storage"
	vrt "github.com/cenkalti/rain/v2/internal/zzvrt"
)

// Padding files serve zeroes; the byte loop is replaced by clear().
//
//vrt:replace (github.com/cenkalti/rain/v2/internal/storage.PaddingFile).ReadAt github.com/cenkalti/rain/v2/internal/filesection.zzPadRead
func zzPadRead(f storage.PaddingFile, p []byte, off int64) (int, error) {
	clear(p)
	return len(p), nil
}

// zzLayout builds a piece of 1..maxSec sections (data on in-memory files at
// arbitrary file offsets, or padding) with arbitrary lengths.
func zzLayout(maxSec int, maxLen uint32) (Piece, []*vrt.MemFile, uint32) {
	nsec := vrt.Choice("nsec", maxSec) + 1
	var p Piece
	var files []*vrt.MemFile
	var total uint32
	for i := 0; i < nsec; i++ {
		l := vrt.U32("seclen")
		vrt.Assume(l <= maxLen)
		if vrt.Bool("padding") {
			p = append(p, FileSection{File: storage.NewPaddingFile(int64(l)), Length: int64(l), Padding: true})
			files = append(files, nil)
		} else {
			off := vrt.U32("file_offset")
			vrt.Assume(off <= 1<<20)
			f := &vrt.MemFile{Data: make([]byte, int(off)+int(l))}
			p = append(p, FileSection{File: f, Offset: int64(off), Length: int64(l)})
			files = append(files, f)
		}
		total += l
	}
	vrt.Assume(total >= 1 && total <= maxLen)
	return p, files, total
}

func zzSectionRW(maxSec int) {
	p, files, total := zzLayout(maxSec, 65536)
	// the piece buffer: arbitrary content, zero where the piece is padding (as the downloader leaves it)
	buf := vrt.Bytes("piece_buffer", int(total))
	n, err := p.Write(buf)
	var dataLen uint32
	for i, s := range p {
		if !s.Padding {
			dataLen += uint32(s.Length)
			vrt.Assert(len(files[i].Writes) <= 1, "a section was written more than once")
		}
	}
	vrt.Assert(err == nil && uint32(n) == dataLen, "Write did not write exactly the non-padding bytes")
	// every non-padding byte x of the piece must now be on its file at the right offset
	x := vrt.U32("witness_offset")
	vrt.Assume(x < total)
	var pos uint32
	for i, s := range p {
		end := pos + uint32(s.Length)
		if x >= pos && x < end && !s.Padding {
			vrt.Assert(files[i].Data[s.Offset+int64(x-pos)] == buf[x], "byte written to the wrong place (or not at all)")
		}
		pos = end
	}
	// read any sub-range back
	off := vrt.U32("read_offset")
	ln := vrt.Int("read_length")
	vrt.Assume(ln >= 1 && ln <= 16384 && off <= total && uint32(ln) <= total-off)
	out := make([]byte, ln)
	got, rerr := p.ReadAt(out, int64(off))
	vrt.Assert(rerr == nil && got == ln, "in-range read failed or was short")
	j := vrt.U32("witness_read_index")
	vrt.Assume(j < uint32(ln))
	if got == ln {
		want := buf[off+j]
		pos = 0
		for _, s := range p {
			end := pos + uint32(s.Length)
			if off+j >= pos && off+j < end && s.Padding {
				want = 0
				vrt.Cover(true, "read covers padding")
			}
			pos = end
		}
		vrt.Assert(out[j] == want, "read-back byte differs from what was written (padding must read as zero)")
	}
	vrt.Cover(len(p) >= 2 && off > 0, "read starts inside the piece")
}

// ZZSectionRW2: write a piece and read any sub-range back, <=2 sections.
//
//vrt:cover ZZSectionRW2 read covers padding
//vrt:cover ZZSectionRW2 read starts inside the piece
func ZZSectionRW2() { zzSectionRW(2) }

// ZZSectionRW3: <=3 sections.
func ZZSectionRW3() { zzSectionRW(3) }

// ZZSectionWriteError: a piece of 1..3 data sections written to files of which
// an arbitrary one rejects the write (disk full, quota, I/O error): Write
// reports an error - a piece is never reported as written when one of its
// sections is not on disk - and writes nothing after the failing section.
//
//vrt:cover ZZSectionWriteError failing section is not the last one
func ZZSectionWriteError() {
	nsec := vrt.Choice("nsec", 3) + 1
	var p Piece
	var files []*vrt.MemFile
	total := 0
	for i := 0; i < nsec; i++ {
		l := vrt.Choice("seclen", 3) + 1
		f := &vrt.MemFile{Data: make([]byte, l)}
		p = append(p, FileSection{File: f, Offset: 0, Length: int64(l)})
		files = append(files, f)
		total += l
	}
	bad := vrt.Choice("failing_section", nsec)
	files[bad].Fail = true
	vrt.Cover(bad < nsec-1, "failing section is not the last one")
	buf := vrt.Bytes("piece_buffer", total)
	_, err := p.Write(buf)
	vrt.Assert(err != nil, "Write reported success although a section could not be written")
	for i := bad + 1; i < nsec; i++ {
		vrt.Assert(len(files[i].Writes) == 0, "sections after the failing one were still written")
	}
}
