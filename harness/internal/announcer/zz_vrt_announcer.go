package announcer

import (
	"context"
	"net"
	"time"

	"github.com/cenkalti/backoff/v7"
	"github.com/cenkalti/rain/v2/internal/logger"
	"github.com/cenkalti/rain/v2/internal/tracker"
	vrt "github.com/cenkalti/rain/v2/internal/zzvrt"
)

// The exponential back-off uses floating point and randomness; replaced by its
// contract: some duration of at least 2.5 s (half the initial interval).
//
//vrt:replace (*github.com/cenkalti/backoff/v7.ExponentialBackOff).NextBackOff github.com/cenkalti/rain/v2/internal/announcer.zzNextBackOff
func zzNextBackOff(b *backoff.ExponentialBackOff) time.Duration {
	d := time.Duration(vrt.I64("backoff"))
	vrt.Assume(d >= 2500*time.Millisecond && d <= 30*time.Minute)
	return d
}

//vrt:replace (*github.com/cenkalti/backoff/v7.ExponentialBackOff).Reset github.com/cenkalti/rain/v2/internal/announcer.zzBackOffReset
func zzBackOffReset(b *backoff.ExponentialBackOff) {}

//vrt:replace (*github.com/cenkalti/rain/v2/internal/announcer.AnnounceError).ErrorWithType github.com/cenkalti/rain/v2/internal/announcer.zzErrorWithType
func zzErrorWithType(e *AnnounceError) string { return "error" }

// zzDuration: any duration a tracker reply can carry: the range of a 32-bit
// count of seconds (negative and zero included), at nanosecond granularity
// (a superset of the whole-second values; avoids a 64-bit multiplication by
// 10^9 in every solver query).
func zzDuration(name string) time.Duration {
	d := time.Duration(vrt.I64(name))
	vrt.Assume(d >= -(1<<31)*time.Second && d < (1<<31)*time.Second)
	return d
}

type zzReply struct {
	kind     int // 0 ok, 1 tracker failure with retry-in, 2 undecodable reply, 3 aborted by someone else (context.Canceled although this announcer cancelled nothing)
	interval time.Duration
	minIntvl time.Duration
	retryIn  time.Duration
}

type zzTracker struct {
	replies []zzReply
	events  []tracker.Event
	called  chan struct{}
}

func (t *zzTracker) URL() string { return "http://tracker.example/announce" }

func (t *zzTracker) Announce(ctx context.Context, req tracker.AnnounceRequest) (*tracker.AnnounceResponse, error) {
	n := len(t.events)
	t.events = append(t.events, req.Event)
	t.called <- struct{}{}
	if n >= len(t.replies) {
		return nil, tracker.ErrDecode
	}
	r := t.replies[n]
	switch r.kind {
	case 0:
		return &tracker.AnnounceResponse{Interval: r.interval, MinInterval: r.minIntvl}, nil
	case 1:
		return nil, &tracker.Error{FailureReason: "no", RetryIn: r.retryIn}
	case 3:
		// e.g. the UDP connect shared with a torrent that was just stopped
		vrt.Assert(ctx.Err() == nil, "announce context cancelled although nobody stopped this announcer")
		return nil, context.Canceled
	}
	return nil, tracker.ErrDecode
}

// ZZAnnouncerEvents: the real announcer loop and its announce goroutines
// against a tracker whose two replies are arbitrary (ok with any 32-bit
// interval / min-interval in seconds - zero and negative included -, a failure
// with any retry-in, or garbage), with the completion signal given before the
// start, during the run or never: first event is 'started'; 'completed' at
// most once and never when already complete at start; the timer armed after
// a reply never fires sooner than min(tracker's positive interval, minimum
// announce interval) after an ok reply, or than retry-in / the back-off after
// a failure; HasAnnounced iff the tracker accepted an announce.
//
//vrt:cover ZZAnnouncerEvents non-positive tracker interval
//vrt:cover ZZAnnouncerEvents completed sent
//vrt:cover ZZAnnouncerEvents failure then retry
//vrt:cover ZZAnnouncerEvents announce aborted by another torrent
func ZZAnnouncerEvents() {
	trk := &zzTracker{called: make(chan struct{}, 8)}
	for i := 0; i < 2; i++ {
		r := zzReply{kind: vrt.Choice("reply_kind", 4)}
		switch r.kind {
		case 0:
			r.interval = zzDuration("interval_ns")
			r.minIntvl = zzDuration("min_interval_ns")
		case 1:
			r.retryIn = zzDuration("retry_in_ns")
		}
		trk.replies = append(trk.replies, r)
	}
	clientMin := time.Duration(vrt.Choice("client_min_interval_s", 3)+1) * time.Minute
	completedC := make(chan struct{})
	completeAt := vrt.Choice("completion_signal", 3) // 0 before start, 1 after the first reply, 2 never
	if completeAt == 0 {
		close(completedC)
	}
	newPeers := make(chan []*net.TCPAddr, 8)
	a := NewPeriodicalAnnouncer(trk, 50, clientMin, func() tracker.Torrent { return tracker.Torrent{} }, completedC, newPeers, logger.New("zz"))
	go a.Run()
	accepted := 0
	minEff := clientMin
	for round := 0; round < 2; round++ {
		// wait for the announce of this round to reach the tracker, then for the
		// loop to have processed the reply (Stats is answered by the loop itself)
		<-trk.called
		_ = a.Stats()
		r := trk.replies[round]
		vrt.Assert(a.Stats().Status != Contacting, "announcer still contacting after the tracker replied")
		d := time.Duration(vrt.TimerReset(vrt.TimerResets() - 1))
		switch r.kind {
		case 0:
			accepted++
			// the tracker's last positive min-interval replaces the client's minimum for the rest of the run
			if r.minIntvl > 0 {
				minEff = r.minIntvl
			}
			lower := minEff
			if r.interval > 0 && r.interval < lower {
				lower = r.interval
			}
			vrt.Cover(r.interval <= 0, "non-positive tracker interval")
			vrt.Assert(d >= lower, "next announce armed sooner than min(tracker's positive interval, minimum announce interval)")
		case 1:
			vrt.Cover(true, "failure then retry")
			if r.retryIn > 0 {
				vrt.Assert(d == r.retryIn, "retry not armed at the tracker's retry-in")
			} else {
				vrt.Assert(d >= 2500*time.Millisecond, "retry armed sooner than the back-off")
			}
		default:
			vrt.Cover(r.kind == 3, "announce aborted by another torrent")
			vrt.Assert(d >= 2500*time.Millisecond, "retry armed sooner than the back-off")
		}
		if round == 0 {
			if completeAt == 1 {
				close(completedC) // the next announce is 'completed'
			} else if tc := vrt.TimerChan(0); tc != nil {
				tc <- time.Time{} // the timer fires: periodic announce
			}
		}
	}
	vrt.Assert(len(trk.events) >= 1 && trk.events[0] == tracker.EventStarted, "first announce is not 'started'")
	completed := 0
	for i, ev := range trk.events {
		if ev == tracker.EventCompleted {
			completed++
		}
		if i > 0 {
			vrt.Assert(ev != tracker.EventStarted, "'started' sent twice in one run")
		}
	}
	vrt.Cover(completed == 1, "completed sent")
	vrt.Assert(completed <= 1, "'completed' sent more than once")
	if completeAt == 0 || completeAt == 2 {
		vrt.Assert(completed == 0, "'completed' sent although the download did not finish during this run")
	}
	vrt.Assert(a.HasAnnounced == (accepted > 0), "HasAnnounced differs from 'the tracker accepted an announce'")
	a.Close()
}

// ZZAnnouncerRetry: three announces in a row end without a reply, each in an
// arbitrary way (tracker failure without retry-in, undecodable reply, or an
// abort the announcer did not ask for - context.Canceled, bare or wrapped, from
// a connection shared with a torrent that was stopped): after each one the
// announcer leaves the 'contacting' state, arms a retry no sooner than the
// back-off, and when that timer fires announces again.
//
//vrt:cover ZZAnnouncerRetry announce aborted by another torrent
func ZZAnnouncerRetry() {
	trk := &zzTracker{called: make(chan struct{}, 8)}
	for i := 0; i < 3; i++ {
		trk.replies = append(trk.replies, zzReply{kind: 1 + vrt.Choice("failure_kind", 3)})
	}
	completedC := make(chan struct{})
	newPeers := make(chan []*net.TCPAddr, 8)
	a := NewPeriodicalAnnouncer(trk, 50, time.Minute, func() tracker.Torrent { return tracker.Torrent{} }, completedC, newPeers, logger.New("zz"))
	go a.Run()
	for round := 0; round < 3; round++ {
		<-trk.called
		vrt.Assert(len(trk.events) == round+1, "announce count wrong")
		_ = a.Stats()
		vrt.Cover(trk.replies[round].kind == 3, "announce aborted by another torrent")
		vrt.Assert(a.Stats().Status == NotWorking, "announcer not in 'not working' state after a failed announce (no retry armed)")
		vrt.Assert(vrt.TimerResets() == round+2, "no retry timer armed after a failed announce") // the creation counts as one
		d := time.Duration(vrt.TimerReset(vrt.TimerResets() - 1))
		vrt.Assert(d >= 2500*time.Millisecond && d <= 30*time.Minute, "retry not within the back-off bounds")
		tc := vrt.TimerChan(0)
		vrt.Assert(tc != nil, "no timer")
		tc <- time.Time{}
	}
	<-trk.called // the fourth announce
	a.Close()
}

// zzSlowTracker keeps an announce in flight until the harness releases it (or
// the announce is cancelled).
type zzSlowTracker struct {
	events  []tracker.Event
	ctxDead []bool // was the announce context already cancelled when the announce began?
	called  chan struct{}
	release chan struct{}
}

func (t *zzSlowTracker) URL() string { return "http://tracker.example/announce" }

func (t *zzSlowTracker) Announce(ctx context.Context, req tracker.AnnounceRequest) (*tracker.AnnounceResponse, error) {
	t.events = append(t.events, req.Event)
	t.ctxDead = append(t.ctxDead, ctx.Err() != nil)
	t.called <- struct{}{}
	select {
	case <-t.release:
	case <-ctx.Done():
		return nil, ctx.Err()
	}
	return &tracker.AnnounceResponse{Interval: time.Hour}, nil
}

// ZZAnnouncerCompleteInFlight: the download completes while an announce
// ('started', or the retry after a failure) is still in flight: the in-flight
// announce is cancelled, 'completed' is announced on a live context, its reply
// is processed (the announcer leaves 'contacting' and arms the next periodic
// announce), and that periodic announce goes out when the timer fires.
//
//vrt:cover ZZAnnouncerCompleteInFlight completed announced while another announce was in flight
func ZZAnnouncerCompleteInFlight() {
	trk := &zzSlowTracker{called: make(chan struct{}, 8), release: make(chan struct{}, 8)}
	completedC := make(chan struct{})
	newPeers := make(chan []*net.TCPAddr, 8)
	a := NewPeriodicalAnnouncer(trk, 50, time.Minute, func() tracker.Torrent { return tracker.Torrent{} }, completedC, newPeers, logger.New("zz"))
	go a.Run()
	<-trk.called // 'started' is in flight
	if vrt.Bool("first_announce_fails_and_the_retry_is_in_flight") {
		// (an announce that the tracker refuses, then the retry when the back-off timer fires)
		trk.release <- struct{}{}
		vrt.Yield()
		// the reply was ok in this model; fire the periodic timer instead to get a second announce in flight
		if tc := vrt.TimerChan(0); tc != nil {
			tc <- time.Time{}
		}
		<-trk.called
	}
	inFlight := len(trk.events)
	vrt.Assert(a.Stats().Status == Contacting, "announcer not contacting while an announce is in flight")
	close(completedC)
	<-trk.called // the 'completed' announce
	vrt.Cover(true, "completed announced while another announce was in flight")
	vrt.Assert(len(trk.events) == inFlight+1 && trk.events[inFlight] == tracker.EventCompleted, "completion during an announce did not produce a 'completed' announce")
	vrt.Assert(!trk.ctxDead[inFlight], "'completed' announced on an already cancelled context (it can never succeed, nor any later announce)")
	trk.release <- struct{}{}
	vrt.Yield()
	st := a.Stats()
	vrt.Assert(st.Status == Working, "announcer still contacting after the tracker answered the 'completed' announce")
	vrt.Assert(a.HasAnnounced, "accepted announce not recorded")
	// the next periodic announce
	tc := vrt.TimerChan(0)
	vrt.Assert(tc != nil, "no timer")
	tc <- time.Time{}
	<-trk.called
	vrt.Assert(trk.events[len(trk.events)-1] == tracker.EventNone && !trk.ctxDead[len(trk.ctxDead)-1], "periodic announce after completion missing or on a cancelled context")
	trk.release <- struct{}{}
	a.Close()
}
