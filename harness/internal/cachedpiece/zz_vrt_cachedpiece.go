package cachedpiece

import (
	"time"

	"github.com/cenkalti/rain/v2/internal/filesection"
	"github.com/cenkalti/rain/v2/internal/piece"
	"github.com/cenkalti/rain/v2/internal/piececache"
	"github.com/cenkalti/rain/v2/internal/storage"
	vrt "github.com/cenkalti/rain/v2/internal/zzvrt"
)

// The cache is replaced by its contract: Get(key, loader) returns what the
// loader returns for that key (cold, warm and evicted caches all behave like
// this as long as verified pieces are not rewritten, which C01 establishes).
//
//vrt:replace (*github.com/cenkalti/rain/v2/internal/piececache.Cache).Get github.com/cenkalti/rain/v2/internal/cachedpiece.zzCacheGet
func zzCacheGet(c *piececache.Cache, key string, loader piececache.Loader) ([]byte, error) {
	return loader()
}

// Padding files serve zeroes; the byte loop is replaced by clear().
//
//vrt:replace (github.com/cenkalti/rain/v2/internal/storage.PaddingFile).ReadAt github.com/cenkalti/rain/v2/internal/cachedpiece.zzPadRead
func zzPadRead(f storage.PaddingFile, p []byte, off int64) (int, error) {
	clear(p)
	return len(p), nil
}

var zzReadSizes = []int64{1, 3, 4096, 16384, 16385, 100000, 131072, 1 << 20}

// zzPieceOnFiles builds a piece of 1..maxSec sections over in-memory files
// with symbolic section lengths, file offsets and content.
func zzPieceOnFiles(maxSec int, maxLen uint32) (*piece.Piece, []*vrt.MemFile) {
	nsec := vrt.Choice("nsec", maxSec) + 1
	var secs filesection.Piece
	var files []*vrt.MemFile
	var total uint32
	for i := 0; i < nsec; i++ {
		l := vrt.U32("seclen")
		vrt.Assume(l <= maxLen)
		off := vrt.U32("file_offset")
		vrt.Assume(off <= 1<<20)
		if vrt.Bool("padding") {
			secs = append(secs, filesection.FileSection{File: storage.NewPaddingFile(int64(l)), Length: int64(l), Padding: true})
			files = append(files, nil)
		} else {
			f := &vrt.MemFile{Data: vrt.Bytes("file_content", int(off)+int(l))}
			secs = append(secs, filesection.FileSection{File: f, Offset: int64(off), Length: int64(l)})
			files = append(files, f)
		}
		total += l
	}
	vrt.Assume(total >= 1 && total <= maxLen)
	return &piece.Piece{Length: total, Data: secs, Done: true}, files
}

// zzTruth returns the byte of the piece at offset x.
func zzTruth(pi *piece.Piece, files []*vrt.MemFile, x uint32) byte {
	var pos uint32
	for i, s := range pi.Data {
		end := pos + uint32(s.Length)
		if x >= pos && x < end {
			if s.Padding {
				return 0
			}
			return files[i].Data[s.Offset+int64(x-pos)]
		}
		pos = end
	}
	return 0
}

func zzCachedRead(maxSec int, readSize int64) {
	pi, files := zzPieceOnFiles(maxSec, 4*piece.BlockSize)
	var cache *piececache.Cache
	if !vrt.Symbolic() {
		cache = piececache.New(1<<20, time.Minute, 1) // native replay uses the real cache
	}
	c := New(pi, cache, readSize, [20]byte{})
	n := vrt.Int("request_length")
	vrt.Assume(n >= 1 && n <= piece.BlockSize)
	off := vrt.U32("request_begin")
	vrt.Assume(off <= pi.Length && uint32(n) <= pi.Length-off)
	p := make([]byte, n)
	got, err := c.ReadAt(p, int64(off))
	vrt.Cover(int64(off)/readSize != (int64(off)+int64(n)-1)/readSize, "request crosses a read-cache block")
	vrt.Assert(err == nil, "in-bounds read returned an error")
	vrt.Assert(got == n, "in-bounds read returned fewer bytes than requested")
	j := vrt.U32("witness_index")
	vrt.Assume(j < uint32(n))
	if got == n {
		vrt.Assert(p[j] == zzTruth(pi, files, off+j), "served byte differs from the piece content")
	}
}

// ZZCachedRead128K: default read-cache block size (128 KiB), <=2 sections, piece <= 64 KiB.
func ZZCachedRead128K() { zzCachedRead(2, 128<<10) }

// ZZCachedRead16K1: read size 16 KiB, single section (quick tier).
//
//vrt:cover ZZCachedRead16K1 request crosses a read-cache block
func ZZCachedRead16K1() { zzCachedRead(1, 16<<10) }

// ZZCachedRead16K: read-cache block of 16 KiB (requests not aligned to 16 KiB cross blocks).
//
//vrt:cover ZZCachedRead16K request crosses a read-cache block
func ZZCachedRead16K() { zzCachedRead(2, 16<<10) }

// ZZCachedReadOdd: read size 16385.
//
//vrt:cover ZZCachedReadOdd request crosses a read-cache block
func ZZCachedReadOdd() { zzCachedRead(2, 16385) }

// ZZCachedReadSmall: read size 4096.
//
//vrt:cover ZZCachedReadSmall request crosses a read-cache block
func ZZCachedReadSmall() { zzCachedRead(2, 4096) }
