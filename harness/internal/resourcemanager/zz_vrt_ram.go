package resourcemanager

import (
	vrt "github.com/cenkalti/rain/v2/internal/zzvrt"
)

// ZZRequestAnswered: whatever the state of the requester's cancel channel, a
// reservation request is always answered (the caller is the torrent's event
// loop: an unanswered request blocks the whole torrent), and the accounting
// stays within [0, limit].
//
//vrt:cover ZZRequestAnswered granted
//vrt:cover ZZRequestAnswered queued
//vrt:cover ZZRequestAnswered requester already cancelled
func ZZRequestAnswered() {
	limit := int64(vrt.Choice("limit", 4))
	m := New[int](limit)
	notifyC := make(chan int, 4)
	var held []int64 // amounts granted and not yet released (one Release per grant, as the torrent does)
	var total int64
	amounts := map[int]int64{} // amount asked by the request made in each step (queued requests are granted later through notifyC)
	for step := 0; step < 3; step++ {
		switch vrt.Choice("operation", 2) {
		case 0:
			n := int64(vrt.Choice("amount", 3) + 1)
			cancelC := make(chan struct{})
			if vrt.Bool("requester_closed_before_request") {
				close(cancelC)
				vrt.Cover(true, "requester already cancelled")
			}
			amounts[step] = n
			ok := m.Request("torrent", step, n, notifyC, cancelC)
			if ok {
				vrt.Cover(true, "granted")
				held = append(held, n)
				total += n
			} else {
				vrt.Cover(true, "queued")
			}
		case 1:
			vrt.Assume(len(held) > 0)
			m.Release(held[0])
			total -= held[0]
			held = held[1:]
		}
		// grants for queued requests arrive on notifyC (the data echoed is the step of the request);
		// the manager may deliver one between two Stats calls, so settle a few rounds
		st := m.Stats()
		for tries := 0; tries < 4; tries++ {
			for {
				got := -1
				select {
				case k := <-notifyC:
					got = k
				default:
				}
				if got < 0 {
					break
				}
				held = append(held, amounts[got])
				total += amounts[got]
			}
			st = m.Stats()
			if st.AllocatedSize == total {
				break
			}
		}
		vrt.Assert(st.AllocatedSize >= 0 && st.AllocatedSize <= limit, "allocated size outside [0, limit]")
		vrt.Assert(st.AllocatedObjects >= 0, "negative object count")
		// reservations balance: what the manager has booked is exactly what requesters were told they hold
		vrt.Assert(st.AllocatedSize == total, "manager booked a reservation no requester was told about (leak)")
	}
	m.Close()
}
