package metainfo

import (
	"errors"

	vrt "github.com/cenkalti/rain/v2/internal/zzvrt"
	"github.com/zeebo/bencode"
)

// The bencode decoder is reflection based and is replaced, for the engine, by
// "the decoder produced this arbitrary value": zzInfo is what DecodeBytes
// stores into an *infoType. Natively (replay) the value is really bencoded and
// goes through the real decoder.
var zzInfo infoType

// zzPrivateVal is what the decoder yields for the "private" field.
var zzPrivateVal int64

//vrt:replace github.com/zeebo/bencode.DecodeBytes github.com/cenkalti/rain/v2/internal/metainfo.zzDecodeBytes
func zzDecodeBytes(b []byte, v interface{}) error {
	switch p := v.(type) {
	case *infoType:
		*p = zzInfo
		return nil
	case *int64:
		*p = zzPrivateVal
		return nil
	case *string:
		*p = ""
		return nil
	}
	return errors.New("zz: unexpected decode target")
}

// zzEncode bencodes an infoType by hand (native replay only).
func zzEncode(ib infoType) []byte {
	d := map[string]interface{}{
		"piece length": int64(ib.PieceLength),
		"pieces":       string(ib.Pieces),
		"name":         ib.Name,
	}
	if ib.NameUTF8 != "" {
		d["name.utf-8"] = ib.NameUTF8
	}
	if len(ib.Files) > 0 {
		var fl []interface{}
		for _, f := range ib.Files {
			var p []interface{}
			for _, c := range f.Path {
				p = append(p, c)
			}
			m := map[string]interface{}{"length": f.Length, "path": p}
			if len(f.PathUTF8) > 0 {
				var pu []interface{}
				for _, c := range f.PathUTF8 {
					pu = append(pu, c)
				}
				m["path.utf-8"] = pu
			}
			if f.Attr != "" {
				m["attr"] = f.Attr
			}
			fl = append(fl, m)
		}
		d["files"] = fl
	} else {
		d["length"] = ib.Length
	}
	b, err := bencode.EncodeBytes(d)
	if err != nil {
		panic(err)
	}
	return b
}

var zzNames = []string{"a", "b", "c", "d"}

// ZZSymbolicInfo builds an arbitrary decoded info dictionary with up to
// maxFiles files (0 files = single-file mode) and up to maxPieces piece hashes,
// runs the real NewInfo on it and returns its result. Strings are concrete
// (paths are the business of the path-confinement property).
func ZZSymbolicInfo(maxFiles, maxPieces int, pad bool) (*Info, error, infoType) {
	b, ib := ZZPrepareSymbolicInfo(maxFiles, maxPieces)
	info, err := NewInfo(b, true, pad)
	return info, err, ib
}

// ZZPrepareSymbolicInfo makes the decoder yield an arbitrary info dictionary
// (see ZZSymbolicInfo) for whoever calls NewInfo next; natively it returns
// the dictionary really bencoded.
func ZZPrepareSymbolicInfo(maxFiles, maxPieces int) ([]byte, infoType) {
	var ib infoType
	ib.PieceLength = vrt.U32("piece_length")
	np := vrt.Choice("num_piece_hashes", maxPieces+2)
	if np == maxPieces+1 {
		ib.Pieces = vrt.Bytes("pieces", 27) // not a multiple of 20
	} else {
		ib.Pieces = vrt.Bytes("pieces", 20*np)
	}
	ib.Name = "t"
	nf := vrt.Choice("num_files", maxFiles+1)
	if nf == 0 {
		ib.Length = vrt.I64("length")
	}
	for i := 0; i < nf; i++ {
		f := file{Length: vrt.I64("file_length"), Path: []string{zzNames[i]}}
		if vrt.Bool("file_is_padding") {
			f.Attr = "p"
		}
		ib.Files = append(ib.Files, f)
	}
	zzInfo = ib
	var b []byte
	if !vrt.Symbolic() {
		b = zzEncode(ib)
	}
	return b, ib
}

// ZZNewInfoWellFormed: whatever the decoder produced, NewInfo rejects it or
// returns a well-formed description.
//
//vrt:cover ZZNewInfoWellFormed accepted multi-file
//vrt:cover ZZNewInfoWellFormed accepted single-file
//vrt:cover ZZNewInfoWellFormed rejected
func ZZNewInfoWellFormed() {
	info, err, ib := ZZSymbolicInfo(3, 3, true)
	vrt.Cover(err != nil, "rejected")
	if err != nil {
		return
	}
	vrt.Cover(len(ib.Files) > 1, "accepted multi-file")
	vrt.Cover(len(ib.Files) == 0, "accepted single-file")
	vrt.Assert(info.PieceLength > 0, "accepted info has zero piece length")
	vrt.Assert(info.NumPieces >= 1, "accepted info has no pieces")
	vrt.Assert(int(info.NumPieces)*20 == len(ib.Pieces), "piece count does not match piece string")
	var sum int64
	for _, f := range info.Files {
		vrt.Assert(f.Length >= 0, "accepted info has a negative file length")
		s2 := sum + f.Length
		vrt.Assert(s2 >= sum, "sum of file lengths overflows int64")
		sum = s2
	}
	vrt.Assert(sum == info.Length, "Info.Length is not the sum of the file lengths")
	total := int64(info.PieceLength) * int64(info.NumPieces)
	vrt.Assert(info.Length >= 0 && info.Length <= total && total-info.Length < int64(info.PieceLength), "total length inconsistent with piece count")
	vrt.Assert(info.Padding >= 0 && info.Padding <= info.Length, "padding bytes exceed total length")
}

// zzStr returns a string of n arbitrary ASCII bytes (stated bound: bytes >= 0x80,
// i.e. multi-byte and invalid UTF-8, are covered only by concrete witnesses).
func zzStr(name string, n int) string {
	s := vrt.String(name, n)
	for i := 0; i < len(s); i++ {
		vrt.Assume(s[i] < 0x80)
	}
	return s
}

// ZZSymbolicPathsInfo builds an info dictionary whose name and path components
// are arbitrary ASCII strings (name <= maxName bytes, <=2 files with <=2
// components of <= maxComp bytes), runs the real NewInfo on it and returns the result.
func ZZSymbolicPathsInfo(maxName, maxComp int) (*Info, error) {
	return ZZSymbolicPathsInfoN(maxName, maxComp, 2, 2)
}

// ZZSymbolicPathsInfoN additionally bounds the number of files and of path
// components per file; maxName < 0 fixes the torrent name to "t".
func ZZSymbolicPathsInfoN(maxName, maxComp, maxFiles, maxComps int) (*Info, error) {
	var ib infoType
	ib.PieceLength = 16384
	ib.Pieces = make([]byte, 20)
	if maxName < 0 {
		ib.Name = "t"
	} else {
		ib.Name = zzStr("torrent_name", vrt.Choice("name_len", maxName+1))
		// the arbitrary name may instead arrive in the optional "name.utf-8" key,
		// which overrides a harmless plain "name"
		if len(ib.Name) > 0 && vrt.Bool("name_in_utf8_key") {
			ib.Name, ib.NameUTF8 = "x", ib.Name
		}
	}
	nf := vrt.Choice("num_files", maxFiles+1)
	switch nf {
	case 0:
		ib.Length = 16384
	case 1:
		ib.Files = []file{{Length: 16384}}
	case 2:
		ib.Files = []file{{Length: 8192}, {Length: 8192}}
	}
	for i := range ib.Files {
		nc := vrt.Choice("num_components", maxComps) + 1
		for c := 0; c < nc; c++ {
			ib.Files[i].Path = append(ib.Files[i].Path, zzStr("path_component", vrt.Choice("component_len", maxComp+1)))
		}
		// likewise the arbitrary path may arrive in "path.utf-8", overriding a harmless "path"
		if vrt.Bool("path_in_utf8_key") {
			ib.Files[i].Path, ib.Files[i].PathUTF8 = []string{"x"}, ib.Files[i].Path
		}
	}
	zzInfo = ib
	var b []byte
	if !vrt.Symbolic() {
		b = zzEncode(ib)
	}
	return NewInfo(b, true, true)
}

// ZZConcreteInfo builds, through the real NewInfo, an Info with the given piece
// length, number of pieces and file lengths (single file when one length is
// given); used as the metadata of torrent-level fixtures.
func ZZConcreteInfo(pieceLength uint32, numPieces int, fileLengths []int64, private bool) *Info {
	var ib infoType
	ib.PieceLength = pieceLength
	ib.Pieces = vrt.Bytes("piece_hashes", 20*numPieces)
	ib.Name = "t"
	if len(fileLengths) == 1 {
		ib.Length = fileLengths[0]
	} else {
		for i, l := range fileLengths {
			ib.Files = append(ib.Files, file{Length: l, Path: []string{zzNames[i]}})
		}
	}
	zzPrivateVal = 0
	if private {
		// any non-zero integer marks the torrent private (BEP 27 says 1; clients treat non-zero as set)
		zzPrivateVal = vrt.I64("private_flag_value")
		vrt.Assume(zzPrivateVal != 0)
		ib.Private = []byte("i1e")
	}
	zzInfo = ib
	var b []byte
	if !vrt.Symbolic() {
		b = zzEncode(ib)
	}
	info, err := NewInfo(b, true, true)
	if err != nil {
		panic("zz: ZZConcreteInfo: " + err.Error())
	}
	return info
}
