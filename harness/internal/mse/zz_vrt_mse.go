package mse

import (
	vrt "github.com/cenkalti/rain/v2/internal/zzvrt"
)

// zzReadSync: the bounded scan for a synchronisation marker (the hash of the
// shared secret, or the encrypted verification constant) succeeds exactly
// when the marker starts within the allowed window, and then consumes exactly
// the bytes up to the end of the marker - for every amount of padding before
// it and every fragmentation of the stream.
func zzReadSync(keyLen, maxSkip int) {
	key := vrt.Bytes("marker", keyLen)
	skip := vrt.Choice("padding_before_marker", maxSkip+1)
	stream := vrt.Bytes("stream", skip+keyLen+3)
	// the marker is at offset skip ...
	for i := 0; i < keyLen; i++ {
		vrt.Assume(stream[skip+i] == key[i])
	}
	// ... and nowhere earlier (it is a SHA-1 / RC4 output; recorded assumption)
	for o := 0; o < skip; o++ {
		same := true
		for i := 0; i < keyLen; i++ {
			if stream[o+i] != key[i] {
				same = false
			}
		}
		vrt.Assume(!same)
	}
	conn := &vrt.Conn{In: stream}
	switch vrt.Choice("fragmentation", 3) {
	case 1:
		conn.OneByOne = true
	case 2:
		conn.Split = vrt.Choice("split_point", len(stream)) + 1
	}
	max := vrt.Int("scan_limit")
	vrt.Assume(max >= keyLen && max <= maxSkip+keyLen+4) // callers always allow at least the marker itself
	s := &Stream{raw: conn}
	err := s.readSync(key, max)
	vrt.Cover(err == nil && skip > 0, "marker found after padding")
	vrt.Cover(err != nil, "marker beyond the window")
	vrt.Assert((err == nil) == (skip+keyLen <= max), "marker found iff it ends within the scan limit")
	if err == nil {
		vrt.Assert(conn.Pos == skip+keyLen, "scan consumed bytes beyond the marker")
	}
}

// ZZReadSync8: 8-byte marker (verification constant), up to 6 bytes of padding.
//
//vrt:cover ZZReadSync8 marker found after padding
//vrt:cover ZZReadSync8 marker beyond the window
func ZZReadSync8() { zzReadSync(8, 6) }

// ZZReadSync20: 20-byte marker (hash), up to 10 bytes of padding.
func ZZReadSync20() { zzReadSync(20, 10) }
