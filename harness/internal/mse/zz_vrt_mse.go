package mse

import (
	"crypto/rc4"
	"encoding/binary"
	"io"
	"math/big"

	vrt "github.com/cenkalti/rain/v2/internal/zzvrt"
)

// zzReadSync: the bounded scan for a synchronisation marker (the hash of the
// shared secret, or the encrypted verification constant) succeeds exactly
// when the marker starts within the allowed window, and then consumes exactly
// the bytes up to the end of the marker - for every amount of padding before
// it and every fragmentation of the stream.
func zzReadSync(keyLen, maxSkip int) {
	key := vrt.Bytes("marker", keyLen)
	skip := vrt.Choice("padding_before_marker", maxSkip+1)
	stream := vrt.Bytes("stream", skip+keyLen+3)
	// the marker is at offset skip ...
	for i := 0; i < keyLen; i++ {
		vrt.Assume(stream[skip+i] == key[i])
	}
	// ... and nowhere earlier (it is a SHA-1 / RC4 output; recorded assumption)
	for o := 0; o < skip; o++ {
		same := true
		for i := 0; i < keyLen; i++ {
			if stream[o+i] != key[i] {
				same = false
			}
		}
		vrt.Assume(!same)
	}
	conn := &vrt.Conn{In: stream}
	switch vrt.Choice("fragmentation", 3) {
	case 1:
		conn.OneByOne = true
	case 2:
		conn.Split = vrt.Choice("split_point", len(stream)) + 1
	}
	max := vrt.Int("scan_limit")
	vrt.Assume(max >= keyLen && max <= maxSkip+keyLen+4) // callers always allow at least the marker itself
	s := &Stream{raw: conn}
	err := s.readSync(key, max)
	vrt.Cover(err == nil && skip > 0, "marker found after padding")
	vrt.Cover(err != nil, "marker beyond the window")
	vrt.Assert((err == nil) == (skip+keyLen <= max), "marker found iff it ends within the scan limit")
	if err == nil {
		vrt.Assert(conn.Pos == skip+keyLen, "scan consumed bytes beyond the marker")
	}
}

// ZZReadSync8: 8-byte marker (verification constant), up to 6 bytes of padding.
//
//vrt:cover ZZReadSync8 marker found after padding
//vrt:cover ZZReadSync8 marker beyond the window
func ZZReadSync8() { zzReadSync(8, 6) }

// ZZReadSync20: 20-byte marker (hash), up to 10 bytes of padding.
func ZZReadSync20() { zzReadSync(20, 10) }

// ---- two-party handshake with the cryptographic primitives replaced ----
//
// Diffie-Hellman is replaced by "both sides derive the same opaque secret"
// (DH agreement is the assumption), SHA-1 of the secret by fixed arbitrary
// 20-byte strings per label, HASH('req2', SKEY) by an injective function of
// the key (collision freedom), RC4 by XOR with an arbitrary keystream per key
// label ("keyA"/"keyB") - both parties therefore see the same keystream for the
// same key, which is all the protocol logic relies on. Pads are 0..2 bytes.

var (
	zzReq     map[string][]byte
	zzStreams [3][]byte
	zzCiphers []*zzCipher
)

type zzCipher struct {
	c   *rc4.Cipher
	id  int
	pos int
}

//vrt:replace github.com/cenkalti/rain/v2/internal/mse.keyPair github.com/cenkalti/rain/v2/internal/mse.zzKeyPair ZZTwoParty ZZTwoPartyWrongKey ZZAcceptPolicy
func zzKeyPair() (*big.Int, *big.Int, error) { return new(big.Int), new(big.Int), nil }

//vrt:replace github.com/cenkalti/rain/v2/internal/mse.bytesWithPad github.com/cenkalti/rain/v2/internal/mse.zzBytesWithPad ZZTwoParty ZZTwoPartyWrongKey ZZAcceptPolicy
func zzBytesWithPad(key *big.Int) []byte { return make([]byte, 96) }

//vrt:replace (*math/big.Int).SetBytes github.com/cenkalti/rain/v2/internal/mse.zzSetBytes ZZTwoParty ZZTwoPartyWrongKey ZZAcceptPolicy
func zzSetBytes(z *big.Int, buf []byte) *big.Int { return z }

//vrt:replace (*math/big.Int).Exp github.com/cenkalti/rain/v2/internal/mse.zzExp ZZTwoParty ZZTwoPartyWrongKey ZZAcceptPolicy
func zzExp(z, x, y, m *big.Int) *big.Int { return z }

//vrt:replace github.com/cenkalti/rain/v2/internal/mse.hashInt github.com/cenkalti/rain/v2/internal/mse.zzHashInt ZZTwoParty ZZTwoPartyWrongKey ZZAcceptPolicy
func zzHashInt(prefix string, i *big.Int) []byte { return append([]byte(nil), zzReq[prefix]...) }

//vrt:replace github.com/cenkalti/rain/v2/internal/mse.HashSKey github.com/cenkalti/rain/v2/internal/mse.zzHashSKey ZZTwoParty ZZTwoPartyWrongKey ZZAcceptPolicy
func zzHashSKey(key []byte) [20]byte {
	var sum [20]byte
	copy(sum[:], key)
	return sum
}

//vrt:replace github.com/cenkalti/rain/v2/internal/mse.rc4Key github.com/cenkalti/rain/v2/internal/mse.zzRC4Key ZZTwoParty ZZTwoPartyWrongKey ZZAcceptPolicy
func zzRC4Key(prefix string, S *big.Int, sKey []byte) []byte {
	if prefix == "keyA" {
		return []byte{1}
	}
	return []byte{2}
}

//vrt:replace crypto/rc4.NewCipher github.com/cenkalti/rain/v2/internal/mse.zzNewCipher ZZTwoParty ZZTwoPartyWrongKey ZZAcceptPolicy
func zzNewCipher(key []byte) (*rc4.Cipher, error) {
	c := &rc4.Cipher{}
	zzCiphers = append(zzCiphers, &zzCipher{c: c, id: int(key[0])})
	return c, nil
}

//vrt:replace (*crypto/rc4.Cipher).XORKeyStream github.com/cenkalti/rain/v2/internal/mse.zzXORKeyStream ZZTwoParty ZZTwoPartyWrongKey ZZAcceptPolicy
func zzXORKeyStream(c *rc4.Cipher, dst, src []byte) {
	for _, zc := range zzCiphers {
		if zc.c != c {
			continue
		}
		if len(src) == 1024 {
			zc.pos += 1024 // RC4-drop-1024: the discarded output is not materialised
			return
		}
		ks := zzStreams[zc.id]
		for i := range src {
			dst[i] = src[i] ^ ks[zc.pos+i-1024]
		}
		zc.pos += len(src)
		return
	}
	panic("zz: unknown cipher")
}

// binary.Read on the (blocking) stream, for the three types the handshake reads.
//
//vrt:replace encoding/binary.Read github.com/cenkalti/rain/v2/internal/mse.zzBinaryRead ZZTwoParty ZZTwoPartyWrongKey ZZAcceptPolicy
func zzBinaryRead(r io.Reader, order binary.ByteOrder, data any) error {
	switch p := data.(type) {
	case *CryptoMethod:
		var b [4]byte
		if _, err := io.ReadFull(r, b[:]); err != nil {
			return err
		}
		*p = CryptoMethod(uint32(b[0])<<24 | uint32(b[1])<<16 | uint32(b[2])<<8 | uint32(b[3]))
		return nil
	case *uint16:
		var b [2]byte
		if _, err := io.ReadFull(r, b[:]); err != nil {
			return err
		}
		*p = uint16(b[0])<<8 | uint16(b[1])
		return nil
	}
	panic("zz: binary.Read of an unexpected type")
}

//vrt:replace github.com/cenkalti/rain/v2/internal/mse.padZero github.com/cenkalti/rain/v2/internal/mse.zzPadZero ZZTwoParty ZZTwoPartyWrongKey ZZAcceptPolicy
func zzPadZero() ([]byte, error) { return make([]byte, vrt.Choice("pad_length", 2)), nil }

//vrt:replace github.com/cenkalti/rain/v2/internal/mse.padRandom github.com/cenkalti/rain/v2/internal/mse.zzPadRandom ZZTwoParty ZZTwoPartyWrongKey ZZAcceptPolicy
func zzPadRandom() ([]byte, error) { return zzPadZero() }

// ZZModelInit sets up the crypto model (also used by the btconn harness).
func ZZModelInit() {
	zzReq = map[string][]byte{"req1": vrt.Bytes("hash_req1_S", 20), "req3": vrt.Bytes("hash_req3_S", 20)}
	// keystreams: fixed, non-zero, non-repeating patterns (the protocol logic does not depend on
	// their values; what is excluded is the 2^-64 coincidence of the encrypted verification
	// constant occurring inside the padding). Pads are zero bytes; the req1 hash does not start with 0.
	zzStreams[1] = make([]byte, 400)
	zzStreams[2] = make([]byte, 400)
	for i := range zzStreams[1] {
		zzStreams[1][i] = byte(i%250 + 1)
		zzStreams[2][i] = byte((i*7)%250 + 3)
	}
	vrt.Assume(zzReq["req1"][0] != 0)
	zzCiphers = nil
}

func zzTwoParty(sameKey bool) {
	ZZModelInit()
	keyA := vrt.Bytes("skey_initiator", 20)
	keyB := keyA
	if !sameKey {
		keyB = vrt.Bytes("skey_responder", 20)
		diff := false
		for i := range keyA {
			if keyA[i] != keyB[i] {
				diff = true
			}
		}
		vrt.Assume(diff)
	}
	ca, cb := vrt.NewPipe()
	if vrt.Bool("byte_by_byte_transport") {
		ca.OneByOne, cb.OneByOne = true, true
	}
	provide := CryptoMethod(vrt.Choice("crypto_provide", 3) + 1)
	ia := vrt.Bytes("initial_payload", vrt.Choice("initial_payload_len", 2)*2)
	sel := CryptoMethod(vrt.Choice("responder_selects", 4)) // 0 none, 1 plaintext, 2 rc4, 3 invalid (two bits)
	a, b := NewStream(ca), NewStream(cb)
	var selA CryptoMethod
	var errA error
	doneA := make(chan struct{})
	go func() {
		selA, errA = a.HandshakeOutgoing(keyA, provide, ia)
		if errA != nil {
			ca.Close()
		}
		close(doneA)
	}()
	var selB CryptoMethod
	errB := b.HandshakeIncoming(
		func(h [20]byte) []byte {
			if h == zzHashSKey(keyB) {
				return keyB
			}
			return nil
		},
		func(provided CryptoMethod) CryptoMethod {
			selB = sel
			return sel
		})
	if errB != nil {
		cb.Close()
	}
	<-doneA
	if !sameKey {
		vrt.Assert(errA != nil || errB != nil, "handshake completed on both sides although the keys differ")
		return
	}
	vrt.Assert((errA == nil) == (errB == nil), "handshake succeeded on one side only")
	if errA != nil || errB != nil {
		vrt.Cover(true, "negotiation refused")
		return
	}
	vrt.Cover(selA == PlainText, "plaintext selected")
	vrt.Cover(selA == RC4, "rc4 selected")
	vrt.Assert(selA == selB && (selA == PlainText || selA == RC4) && selA&provide != 0, "the two sides do not agree on one offered cipher")
	// initial payload, then a message in each direction, read back unchanged
	if len(ia) > 0 {
		got := make([]byte, len(ia))
		n, err := io.ReadFull(b, got)
		vrt.Assert(err == nil && n == len(ia), "initial payload not delivered")
		k := vrt.Choice("witness_ia", len(ia))
		vrt.Assert(got[k] == ia[k], "initial payload changed in transit")
	}
	m1 := vrt.Bytes("message_a_to_b", 3)
	_, err := a.Write(m1)
	vrt.Assert(err == nil, "write after handshake failed")
	r1 := make([]byte, 3)
	_, err = io.ReadFull(b, r1)
	vrt.Assert(err == nil && r1[0] == m1[0] && r1[1] == m1[1] && r1[2] == m1[2], "bytes written by the initiator after the handshake are not read unchanged by the responder")
	m2 := vrt.Bytes("message_b_to_a", 3)
	_, err = b.Write(m2)
	vrt.Assert(err == nil, "write after handshake failed")
	r2 := make([]byte, 3)
	_, err = io.ReadFull(a, r2)
	vrt.Assert(err == nil && r2[0] == m2[0] && r2[1] == m2[1] && r2[2] == m2[2], "bytes written by the responder after the handshake are not read unchanged by the initiator")
}

// ZZTwoParty: initiator and responder (real HandshakeOutgoing / HandshakeIncoming)
// over an in-memory pipe, same key: pads 0..1 on each of the four pads, initial
// payload 0 or 2 bytes, offered ciphers {plain, rc4, both}, responder selecting
// none / plaintext / rc4 / an invalid value, transport whole or byte by byte.
//
//vrt:cover ZZTwoParty plaintext selected
//vrt:cover ZZTwoParty rc4 selected
//vrt:cover ZZTwoParty negotiation refused
func ZZTwoParty() { zzTwoParty(true) }

// ZZTwoPartyWrongKey: different keys never complete on both sides.
func ZZTwoPartyWrongKey() { zzTwoParty(false) }
