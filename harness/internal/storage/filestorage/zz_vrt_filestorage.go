package filestorage

import (
	"errors"
	"os"
	"strings"

	"github.com/cenkalti/rain/v2/internal/metainfo"
	vrt "github.com/cenkalti/rain/v2/internal/zzvrt"
)

var (
	zzPaths []string
	zzFlags []int
	zzErr   = errors.New("zz: open refused")
	// zzMissing: the data file does not exist yet (an open without O_CREATE reports ErrNotExist).
	zzMissing bool
)

//vrt:replace os.MkdirAll github.com/cenkalti/rain/v2/internal/storage/filestorage.zzMkdirAll
func zzMkdirAll(path string, perm os.FileMode) error {
	zzPaths = append(zzPaths, path)
	return nil
}

//vrt:replace os.OpenFile github.com/cenkalti/rain/v2/internal/storage/filestorage.zzOpenFile
func zzOpenFile(name string, flag int, perm os.FileMode) (*os.File, error) {
	zzPaths = append(zzPaths, name)
	zzFlags = append(zzFlags, flag)
	if zzMissing && flag&os.O_CREATE == 0 {
		return nil, os.ErrNotExist // the file is not there yet: Open retries on its create path
	}
	return nil, zzErr
}

//vrt:use internal/metainfo

const zzDest = "/d/t"

// zzConfined: p is dest itself or below dest, with no ".." component.
func zzConfined(p string) bool {
	if p == zzDest {
		return true
	}
	if !strings.HasPrefix(p, zzDest+"/") {
		return false
	}
	for _, c := range strings.Split(p, "/") {
		if c == ".." {
			return false
		}
	}
	return true
}

func zzPathsConfined(maxName, maxComp int) { zzPathsConfinedN(maxName, maxComp, 2, 2) }

// ZZPathsName: arbitrary torrent name (<= 2 ASCII bytes), single-file mode or
// one file with one component of <= 1 byte.
//
//vrt:cover ZZPathsName info rejected
func ZZPathsName() { zzPathsConfinedN(2, 1, 1, 1) }

// ZZPathsComponents: fixed name, <= 2 files with one component of <= 2 bytes
// each (dot-dot rejection, separator replacement, collisions).
//
//vrt:cover ZZPathsComponents info rejected
//vrt:cover ZZPathsComponents two files opened
func ZZPathsComponents() { zzPathsConfinedN(-1, 2, 2, 1) }

func zzPathsConfinedN(maxName, maxComp, maxFiles, maxComps int) {
	info, err := metainfo.ZZSymbolicPathsInfoN(maxName, maxComp, maxFiles, maxComps)
	if err != nil {
		vrt.Cover(true, "info rejected")
		return
	}
	s := &FileStorage{dest: zzDest, perm: 0o750}
	var opened []string
	for _, f := range info.Files {
		if f.Padding {
			continue
		}
		zzPaths = nil
		_, _, _ = s.Open(f.Path, f.Length)
		vrt.Assert(len(zzPaths) == 2, "Open did not reach MkdirAll and OpenFile")
		if len(zzPaths) == 2 {
			// creating an ancestor of the data directory itself is inherent (name "."), anything else must stay inside
			vrt.Assert(zzConfined(zzPaths[0]) || strings.HasPrefix(zzDest, zzPaths[0]), "storage creates a directory outside the torrent's data directory")
			vrt.Assert(zzConfined(zzPaths[1]), "storage opens a file outside the torrent's data directory")
		}
		if len(zzPaths) == 2 {
			opened = append(opened, zzPaths[1])
		}
	}
	vrt.Cover(len(opened) == 2, "two files opened")
	if len(opened) == 2 {
		vrt.Assert(opened[0] != opened[1], "two different files resolve to the same path")
	}
}

// ZZPathsConfined2: names and path components up to 2 bytes.
//
//vrt:cover ZZPathsConfined2 info rejected
//vrt:cover ZZPathsConfined2 two files opened
func ZZPathsConfined2() { zzPathsConfined(2, 2) }

// ZZPathsConfined3: up to 3 bytes.
func ZZPathsConfined3() { zzPathsConfined(3, 3) }

// ZZOpenSync: every data file is opened with O_SYNC (a returned write is durable), whether the
// file already exists or is created by this open (the file's existence is symbolic).
//
//vrt:cover ZZOpenSync create path taken
//vrt:cover ZZOpenSync existing-file path taken
func ZZOpenSync() {
	s := &FileStorage{dest: zzDest, perm: 0o750}
	zzFlags = nil
	zzMissing = vrt.Bool("file missing")
	_, _, _ = s.Open("a/b", 10)
	vrt.Assert(len(zzFlags) >= 1, "OpenFile not reached")
	if zzMissing {
		vrt.Assert(len(zzFlags) == 2 && zzFlags[1]&os.O_CREATE != 0, "missing file not created")
		vrt.Cover(true, "create path taken")
	} else {
		vrt.Cover(true, "existing-file path taken")
	}
	for _, fl := range zzFlags {
		vrt.Assert(fl&os.O_SYNC == os.O_SYNC, "data file opened without O_SYNC")
		vrt.Assert(fl&os.O_RDWR == os.O_RDWR, "data file not opened read-write")
	}
}
