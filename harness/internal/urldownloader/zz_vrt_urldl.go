package urldownloader

import "github.com/cenkalti/rain/v2/internal/bufferpool"

// ZZNextResult emulates the download goroutine finishing the piece it is
// working on (the tail of Run's completePiece): the result for the current
// piece, Done if it is the last one of the - possibly shortened - range,
// otherwise the downloader moves on to the next piece.
func (d *URLDownloader) ZZNextResult(buf bufferpool.Buffer) *PieceResult {
	index := d.current
	done := d.current >= d.readEnd()-1
	r := &PieceResult{Downloader: d, Buffer: buf, Index: index, Done: done}
	if !done {
		d.incrCurrent()
	}
	return r
}
