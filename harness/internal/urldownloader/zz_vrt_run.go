package urldownloader

import (
	"bytes"
	"context"
	"io"
	"net/http"
	"time"

	"github.com/cenkalti/rain/v2/internal/bufferpool"
	"github.com/cenkalti/rain/v2/internal/filesection"
	"github.com/cenkalti/rain/v2/internal/piece"
	vrt "github.com/cenkalti/rain/v2/internal/zzvrt"
)

// The HTTP client is replaced by "the server answers each range request with
// a status and a body of some length" (the harness is the server); request
// construction (net/http, net/url) is outside the harness.
var (
	zzBody     []byte // content of the served file
	zzRanges   [][2]int64
	zzOutcome  int // 0 full body, 1 bad status, 2 transport error, 3 body cut short
	zzReleased []*byte
	zzJobs     []downloadJob
)

//vrt:replace net/http.NewRequest github.com/cenkalti/rain/v2/internal/urldownloader.zzNewRequest ZZURLRun
func zzNewRequest(method, url string, body io.Reader) (*http.Request, error) {
	return &http.Request{Header: http.Header{}}, nil
}

//vrt:replace (*net/http.Request).WithContext github.com/cenkalti/rain/v2/internal/urldownloader.zzWithContext ZZURLRun
func zzWithContext(r *http.Request, ctx context.Context) *http.Request { return r }

//vrt:replace (net/http.Header).Set github.com/cenkalti/rain/v2/internal/urldownloader.zzHeaderSet ZZURLRun
func zzHeaderSet(h http.Header, key, value string) {}

//vrt:replace (*net/http.Client).Do github.com/cenkalti/rain/v2/internal/urldownloader.zzDo ZZURLRun
func zzDo(c *http.Client, req *http.Request) (*http.Response, error) {
	job := zzJobs[len(zzRanges)]
	zzRanges = append(zzRanges, [2]int64{job.RangeBegin, job.Length})
	switch zzOutcome {
	case 1:
		return &http.Response{StatusCode: 404, Body: io.NopCloser(bytes.NewReader(nil))}, nil
	case 2:
		return nil, vrt.ErrIO
	}
	data := zzBody[job.RangeBegin : job.RangeBegin+job.Length]
	if zzOutcome == 3 {
		data = data[:len(data)-1]
	}
	return &http.Response{StatusCode: 206, Body: io.NopCloser(bytes.NewReader(data))}, nil
}

// Buffers handed back to the pool are recorded (by the address of their first byte).
//
//vrt:replace (github.com/cenkalti/rain/v2/internal/bufferpool.Buffer).Release github.com/cenkalti/rain/v2/internal/urldownloader.zzRelease ZZURLRun
func zzRelease(b bufferpool.Buffer) {
	if len(b.Data) > 0 {
		zzReleased = append(zzReleased, &b.Data[0])
	}
}

// ZZURLRun: the real download goroutine (Run) over a single-file torrent of 3
// pieces of 4 bytes, for an arbitrary piece range [begin, end), a server that
// answers in full / with a bad status / with a transport error / with a body
// one byte short, and the range possibly shortened (UpdateEnd) after the first
// piece: results arrive in piece order from begin; every delivered buffer
// holds exactly that piece's bytes of the served file; Done is set exactly on
// the last piece of the (current) range; a failure yields one error result and
// nothing after it; and a buffer that was delivered is never handed back to
// the pool by the downloader (its new owner, the piece writer, still uses it).
//
//vrt:cover ZZURLRun range finished normally
//vrt:cover ZZURLRun request failed
//vrt:cover ZZURLRun range shortened while downloading
func ZZURLRun() {
	const plen = 4
	zzBody = vrt.Bytes("served_file", 3*plen)
	zzRanges, zzReleased = nil, nil
	pieces := make([]piece.Piece, 3)
	for i := range pieces {
		pieces[i] = piece.Piece{Index: uint32(i), Length: plen, Data: filesection.Piece{{Name: "f", Offset: int64(i * plen), Length: plen}}}
	}
	begin := uint32(vrt.Choice("range_begin", 3))
	end := begin + 1 + uint32(vrt.Choice("range_len_minus_one", int(3-begin)))
	zzOutcome = vrt.Choice("server_outcome", 4)
	zzJobs = createJobs(pieces, begin, end)
	d := New("http://ws/", begin, end, nil)
	pool := bufferpool.New(plen)
	resultC := make(chan *PieceResult)
	finished := make(chan struct{})
	go func() {
		d.Run(&http.Client{}, pieces, false, resultC, pool, time.Minute)
		close(finished)
	}()
	shorten := vrt.Bool("range_shortened_after_first_piece")
	var delivered []*byte
	next := begin
	failed := false
	sawDone := false
	for {
		var r *PieceResult
		select {
		case r = <-resultC:
		case <-finished:
		}
		if r == nil {
			break
		}
		vrt.Assert(!failed && !sawDone, "result delivered after an error or after the range was finished")
		if r.Error != nil {
			vrt.Cover(true, "request failed")
			vrt.Assert(zzOutcome != 0, "error although the server answered in full")
			failed = true
			continue
		}
		vrt.Assert(r.Index == next && len(r.Buffer.Data) == plen, "pieces not delivered in order from the start of the range")
		if r.Index != next || len(r.Buffer.Data) != plen {
			return
		}
		k := vrt.Choice("witness_byte", plen)
		vrt.Assert(r.Buffer.Data[k] == zzBody[int(r.Index)*plen+k], "delivered piece differs from the served file at that position")
		delivered = append(delivered, &r.Buffer.Data[0])
		// (the range may be shortened while the next piece is already complete: Done is
		// then judged against the end the downloader saw, the old or the new one)
		if r.Done {
			vrt.Assert(r.Index+1 >= d.readEnd(), "Done set before the last piece of the range")
		} else {
			vrt.Assert(r.Index+1 < end, "Done not set on the last piece of the range")
		}
		sawDone = r.Done
		next++
		if shorten && r.Index == begin && !r.Done {
			vrt.Cover(true, "range shortened while downloading")
			d.UpdateEnd(begin + 2)
		}
	}
	<-finished
	if zzOutcome == 0 {
		vrt.Cover(sawDone, "range finished normally")
		vrt.Assert(sawDone, "range not finished although the server answered in full")
	}
	for _, p := range delivered {
		for _, q := range zzReleased {
			vrt.Assert(p != q, "a delivered piece buffer was handed back to the pool by the downloader")
		}
	}
}
