package infodownloader

import (
	vrt "github.com/cenkalti/rain/v2/internal/zzvrt"
)

type zzPeer struct {
	size uint32
	reqs []uint32
}

func (p *zzPeer) MetadataSize() uint32              { return p.size }
func (p *zzPeer) RequestMetadataPiece(index uint32) { p.reqs = append(p.reqs, index) }

// ZZInfoBlocks: metadata of any size up to 3 blocks; an adversarial peer sends
// up to 3 metadata pieces with arbitrary index and length, interleaved with
// request rounds. Data is accepted only for a requested block of exactly the
// right size and lands exactly in that block's byte range; nothing else changes.
//
//vrt:cover ZZInfoBlocks block accepted
//vrt:cover ZZInfoBlocks unrequested block rejected
//vrt:cover ZZInfoBlocks wrong size rejected
//vrt:cover ZZInfoBlocks last block shorter
func ZZInfoBlocks() {
	size := vrt.U32("metadata_size")
	vrt.Assume(size >= 1 && size <= 3*blockSize)
	pe := &zzPeer{size: size}
	d := New(pe)
	vrt.Assert(uint32(len(d.Bytes)) == size, "buffer size differs from announced metadata size")
	var sum uint32
	for _, b := range d.blocks {
		vrt.Assert(b.size > 0 && b.size <= blockSize, "block size out of range")
		sum += b.size
	}
	vrt.Assert(sum == size, "block sizes do not add up to the metadata size")
	vrt.Cover(size%blockSize != 0, "last block shorter")
	for step := 0; step < 3; step++ {
		if vrt.Bool("request_round") {
			q := vrt.Choice("queue_length", 3)
			before := len(pe.reqs)
			d.RequestBlocks(q)
			vrt.Assert(len(pe.reqs)-before <= q || q == 0, "requested more than the queue length")
			continue
		}
		index := vrt.U32("block_index")
		n := vrt.Int("data_len")
		vrt.Assume(n >= 0 && n <= blockSize+1)
		data := vrt.Bytes("data", n)
		nb := uint32(len(d.blocks))
		requested := false
		var bsize uint32
		if index < nb {
			requested = d.blocks[index].requested
			bsize = d.blocks[index].size
		}
		old := append([]byte(nil), d.Bytes...)
		err := d.GotBlock(index, data)
		j := vrt.U32("witness_offset")
		vrt.Assume(j < size)
		if err == nil {
			vrt.Cover(true, "block accepted")
			vrt.Assert(index < nb && requested && uint32(n) == bsize, "accepted a block that is out of range, unrequested or of the wrong size")
			begin := index * blockSize
			if j >= begin && j-begin < uint32(n) {
				vrt.Assert(d.Bytes[j] == data[j-begin], "accepted data not stored at its position")
			} else {
				vrt.Assert(d.Bytes[j] == old[j], "accepted block changed bytes outside its range")
			}
		} else {
			vrt.Cover(index < nb && !requested, "unrequested block rejected")
			vrt.Cover(index < nb && requested && uint32(n) != bsize, "wrong size rejected")
			vrt.Assert(d.Bytes[j] == old[j], "rejected block changed the buffer")
		}
	}
}
