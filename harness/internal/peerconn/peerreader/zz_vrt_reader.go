package peerreader

import (
	"errors"
	"time"

	"github.com/cenkalti/rain/v2/internal/logger"
	"github.com/cenkalti/rain/v2/internal/peerprotocol"
	vrt "github.com/cenkalti/rain/v2/internal/zzvrt"
)

func zzU32(b []byte, off int) uint32 {
	return uint32(b[off])<<24 | uint32(b[off+1])<<16 | uint32(b[off+2])<<8 | uint32(b[off+3])
}

// zzFragmented configures how the fake connection fragments the stream: one
// arbitrary split point, or one byte per Read.
func zzFragmented(c *vrt.Conn, n int) {
	switch vrt.Choice("fragmentation", 3) {
	case 0:
	case 1:
		c.OneByOne = true
	case 2:
		c.Split = vrt.Choice("split_point", n) + 1
	}
}

var zzErr = errors.New("zz: extension payload does not decode")

// Extension payloads are bencoded (reflection-based decoder): replaced by
// "decodes to some message or fails".
//
//vrt:replace (*github.com/cenkalti/rain/v2/internal/peerprotocol.ExtensionMessage).UnmarshalBinary github.com/cenkalti/rain/v2/internal/peerconn/peerreader.zzUnmarshalExt
func zzUnmarshalExt(m *peerprotocol.ExtensionMessage, data []byte) error {
	if vrt.Bool("extension_payload_invalid") {
		return zzErr
	}
	m.Payload = peerprotocol.ExtensionPEXMessage{}
	return nil
}

// ZZReaderStream: the real reader loop on an arbitrary byte stream of up to 22
// bytes from a peer (fragmentation: none, one arbitrary split, or byte by
// byte), with an arbitrary configured maximum message size: it never panics,
// never allocates more than max(maxMsgSize, 16 KiB) for one message, and never
// delivers a request longer than 16 KiB, a piece payload longer than 16 KiB or
// a bitfield longer than maxMsgSize.
//
//vrt:cover ZZReaderStream request delivered
//vrt:cover ZZReaderStream oversized frame rejected
//vrt:cover ZZReaderStream two messages delivered
//vrt:cover ZZReaderStream oversized request rejected
func ZZReaderStream() { zzReaderStream(22, 99, true) }

// ZZReaderFirst: the first message of an arbitrary stream of <= 18 bytes (any
// fragmentation); the reader is abandoned after the first delivery.
//
//vrt:cover ZZReaderFirst request delivered
//vrt:cover ZZReaderFirst oversized frame rejected
//vrt:cover ZZReaderFirst oversized request rejected
func ZZReaderFirst() { zzReaderStream(18, 1, true) }

// ZZReaderOne: the first message of an arbitrary, unfragmented stream of <= 17 bytes.
//
//vrt:cover ZZReaderOne request delivered
//vrt:cover ZZReaderOne oversized frame rejected
//vrt:cover ZZReaderOne oversized request rejected
func ZZReaderOne() { zzReaderStream(17, 1, false) }

// ZZReaderTwo: streams of <= 11 bytes, unfragmented, up to two deliveries
// (framing re-synchronises after keep-alives, unknown ids and short messages).
//
//vrt:cover ZZReaderTwo two messages delivered
func ZZReaderTwo() { zzReaderStream(11, 2, false) }

func zzReaderStream(max, maxDeliver int, fragment bool) {
	n := vrt.Choice("stream_len", max+1)
	stream := vrt.Bytes("stream", n)
	conn := &vrt.Conn{In: stream}
	if n > 0 && fragment {
		zzFragmented(conn, n)
	}
	maxMsg := vrt.Int("max_message_size")
	vrt.Assume(maxMsg >= 1 && maxMsg <= 1<<20)
	r := New(conn, logger.New("zz"), time.Minute, maxMsg, nil)
	go r.Run()
	delivered := 0
	for {
		var m any
		ok := false
		select {
		case m, ok = <-r.Messages():
		case <-r.Done():
		}
		if !ok {
			break
		}
		delivered++
		switch mm := m.(type) {
		case peerprotocol.BitfieldMessage:
			vrt.Assert(len(mm.Data) <= maxMsg, "bitfield longer than the maximum message size delivered")
		case peerprotocol.RequestMessage:
			vrt.Cover(true, "request delivered")
			vrt.Assert(mm.Length <= 16384, "request longer than 16 KiB delivered")
		case Piece:
			vrt.Assert(len(mm.Buffer.Data) <= 16384, "piece payload longer than 16 KiB delivered")
		}
		vrt.Cover(delivered == 2, "two messages delivered")
		if delivered == maxDeliver {
			break
		}
	}
	if delivered < maxDeliver {
		<-r.Done()
	}
	limit := maxMsg
	if limit < 16384 {
		limit = 16384
	}
	vrt.Assert(vrt.MaxMake() <= limit+32, "allocated more than the maximum message size for one message")
	if n >= 5 && zzU32(stream, 0) != 0 && int64(zzU32(stream, 0))-1 > int64(maxMsg) {
		vrt.Cover(true, "oversized frame rejected")
		vrt.Assert(delivered == 0, "message delivered from an oversized first frame")
	}
	if n >= 17 && zzU32(stream, 0) == 13 && stream[4] == 6 && zzU32(stream, 13) > 16384 {
		vrt.Cover(true, "oversized request rejected")
		vrt.Assert(delivered == 0, "request longer than 16 KiB delivered")
	}
}

// ZZReaderSlowPiece: a piece message whose 6-byte block arrives slowly - the
// read deadline expires at up to two arbitrary points inside the block, with
// some bytes received before each expiry - followed by a have message: the
// block delivered is exactly the block sent and the following message is
// still decoded (framing kept). A deadline that expires with no byte of the
// block received drops the peer.
//
//vrt:cover ZZReaderSlowPiece two stalls inside the block
//vrt:cover ZZReaderSlowPiece stalled at the first byte: dropped
func ZZReaderSlowPiece() {
	const L = 6
	block := vrt.Bytes("block", L)
	idx, begin, have := vrt.U32("index"), vrt.U32("begin"), vrt.U32("have_index")
	var stream []byte
	stream = append(stream, 0, 0, 0, 9+L, 7)
	stream = append(stream, byte(idx>>24), byte(idx>>16), byte(idx>>8), byte(idx), byte(begin>>24), byte(begin>>16), byte(begin>>8), byte(begin))
	stream = append(stream, block...)
	stream = append(stream, 0, 0, 0, 5, 4, byte(have>>24), byte(have>>16), byte(have>>8), byte(have))
	conn := &vrt.Conn{In: stream}
	const blockAt = 13
	s1 := vrt.Choice("first_stall", L+1) // offset inside the block; L = no stall
	if s1 < L {
		conn.Stalls = append(conn.Stalls, blockAt+s1)
		s2 := s1 + 1 + vrt.Choice("second_stall_after", L)
		if s2 < L {
			conn.Stalls = append(conn.Stalls, blockAt+s2)
			vrt.Cover(true, "two stalls inside the block")
		}
	}
	r := New(conn, logger.New("zz"), time.Minute, 1<<20, nil)
	go r.Run()
	var got []any
	for len(got) < 2 {
		var m any
		ok := false
		select {
		case m, ok = <-r.Messages():
		case <-r.Done():
		}
		if !ok {
			break
		}
		got = append(got, m)
	}
	if s1 == 0 {
		vrt.Cover(true, "stalled at the first byte: dropped")
		vrt.Assert(len(got) == 0, "message delivered although the deadline expired before any byte of the block")
		return
	}
	vrt.Assert(len(got) == 2, "slow block or the message after it not delivered")
	if len(got) != 2 {
		return
	}
	pm, ok := got[0].(Piece)
	vrt.Assert(ok, "first message is not the piece")
	if ok {
		vrt.Assert(pm.Index == idx && pm.Begin == begin && len(pm.Buffer.Data) == L, "piece header or length decoded wrongly")
		if len(pm.Buffer.Data) == L {
			k := vrt.Choice("witness_block_byte", L)
			vrt.Assert(pm.Buffer.Data[k] == block[k], "block reassembled from a slow peer differs from the block sent")
		}
	}
	hm, ok := got[1].(peerprotocol.HaveMessage)
	vrt.Assert(ok && hm.Index == have, "message following a slow block not decoded (framing lost)")
}
