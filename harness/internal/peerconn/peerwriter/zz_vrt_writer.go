package peerwriter

import (
	"time"

	"github.com/cenkalti/rain/v2/internal/logger"
	"github.com/cenkalti/rain/v2/internal/peerconn/peerreader"
	"github.com/cenkalti/rain/v2/internal/peerprotocol"
	vrt "github.com/cenkalti/rain/v2/internal/zzvrt"
)

func zzBE32(v uint32) []byte { return []byte{byte(v >> 24), byte(v >> 16), byte(v >> 8), byte(v)} }

// zzMessage picks a message kind and returns it with the wire id and body the
// BitTorrent specifications prescribe (ids from BEP 3/5/6, written out here).
func zzMessage() (msg peerprotocol.Message, id byte, body []byte) {
	switch vrt.Choice("message_kind", 15) {
	case 0:
		return peerprotocol.ChokeMessage{}, 0, nil
	case 1:
		return peerprotocol.UnchokeMessage{}, 1, nil
	case 2:
		return peerprotocol.InterestedMessage{}, 2, nil
	case 3:
		return peerprotocol.NotInterestedMessage{}, 3, nil
	case 4:
		i := vrt.U32("index")
		return peerprotocol.HaveMessage{Index: i}, 4, zzBE32(i)
	case 5:
		n := vrt.Choice("bitfield_len", 9)
		d := vrt.Bytes("bitfield", n)
		return &peerprotocol.BitfieldMessage{Data: d}, 5, d
	case 6:
		i, b, l := vrt.U32("index"), vrt.U32("begin"), vrt.U32("length")
		return peerprotocol.RequestMessage{Index: i, Begin: b, Length: l}, 6, append(append(zzBE32(i), zzBE32(b)...), zzBE32(l)...)
	case 7:
		i, b, l := vrt.U32("index"), vrt.U32("begin"), vrt.U32("length")
		return peerprotocol.CancelMessage{RequestMessage: peerprotocol.RequestMessage{Index: i, Begin: b, Length: l}}, 8, append(append(zzBE32(i), zzBE32(b)...), zzBE32(l)...)
	case 8:
		p := vrt.U16("port")
		return peerprotocol.PortMessage{Port: p}, 9, []byte{byte(p >> 8), byte(p)}
	case 9:
		return peerprotocol.HaveAllMessage{}, 14, nil
	case 10:
		return peerprotocol.HaveNoneMessage{}, 15, nil
	case 11:
		i, b, l := vrt.U32("index"), vrt.U32("begin"), vrt.U32("length")
		return peerprotocol.RejectMessage{RequestMessage: peerprotocol.RequestMessage{Index: i, Begin: b, Length: l}}, 16, append(append(zzBE32(i), zzBE32(b)...), zzBE32(l)...)
	case 12:
		i := vrt.U32("index")
		return peerprotocol.AllowedFastMessage{HaveMessage: peerprotocol.HaveMessage{Index: i}}, 17, zzBE32(i)
	case 13:
		i, b := vrt.U32("index"), vrt.U32("begin")
		return peerprotocol.PieceMessage{Index: i, Begin: b}, 7, append(zzBE32(i), zzBE32(b)...)
	}
	// a second bitfield shape: empty
	return &peerprotocol.BitfieldMessage{}, 5, nil
}

func zzCheckFrame(out []byte, id byte, body []byte) {
	vrt.Assert(len(out) == 5+len(body), "frame length differs from 4+1+len(body)")
	if len(out) != 5+len(body) {
		return
	}
	want := uint32(1 + len(body))
	vrt.Assert(out[0] == byte(want>>24) && out[1] == byte(want>>16) && out[2] == byte(want>>8) && out[3] == byte(want), "length prefix is not big-endian 1+len(body)")
	vrt.Assert(out[4] == id, "message id differs from the protocol's id")
	if len(body) > 0 {
		j := vrt.Choice("witness_body_byte", len(body))
		vrt.Assert(out[5+j] == body[j], "message body differs from the protocol layout")
	}
}

// ZZWriterFrames: every fixed-layout message the writer can emit is framed as
// <len:4 BE><id:1><body>, in exactly one Write, through the real Run loop and
// message writer goroutine.
//
//vrt:cover ZZWriterFrames bitfield with data
func ZZWriterFrames() {
	conn := &vrt.Conn{Written: make(chan struct{}, 4)}
	w := New(conn, logger.New("zz"), 10, vrt.Bool("fast_extension"), nil)
	go w.Run()
	msg, id, body := zzMessage()
	vrt.Cover(id == 5 && len(body) > 0, "bitfield with data")
	w.SendMessage(msg)
	<-conn.Written
	vrt.Assert(len(conn.Writes) == 1, "message not written in exactly one Write")
	zzCheckFrame(conn.Writes[0], id, body)
	w.Stop()
	<-w.Done()
}

// ZZWriterPiece: a piece message carries <index><begin><exactly Length bytes
// [begin, begin+Length) of the piece>, and the upload counter event equals the
// payload bytes written.
//
//vrt:cover ZZWriterPiece full block
func ZZWriterPiece() {
	conn := &vrt.Conn{Written: make(chan struct{}, 4)}
	w := New(conn, logger.New("zz"), 10, vrt.Bool("fast_extension"), nil)
	go w.Run()
	plen := vrt.U32("piece_length")
	vrt.Assume(plen >= 1 && plen <= 65536)
	data := &vrt.MemFile{Data: vrt.Bytes("piece_content", int(plen))}
	i, b, l := vrt.U32("index"), vrt.U32("begin"), vrt.U32("length")
	vrt.Assume(l >= 1 && l <= 16384 && b <= plen && l <= plen-b)
	vrt.Cover(l == 16384, "full block")
	w.SendPiece(peerprotocol.RequestMessage{Index: i, Begin: b, Length: l}, data)
	<-conn.Written
	vrt.Assert(len(conn.Writes) == 1, "piece message not written in exactly one Write")
	out := conn.Writes[0]
	vrt.Assert(uint32(len(out)) == 13+l, "piece frame length differs from 13+Length")
	if uint32(len(out)) != 13+l {
		return
	}
	want := 9 + l
	vrt.Assert(out[0] == byte(want>>24) && out[1] == byte(want>>16) && out[2] == byte(want>>8) && out[3] == byte(want), "piece length prefix wrong")
	vrt.Assert(out[4] == 7, "piece message id is not 7")
	hdr := append(zzBE32(i), zzBE32(b)...)
	k := vrt.Choice("witness_header_byte", 8)
	vrt.Assert(out[5+k] == hdr[k], "piece header wrong")
	j := vrt.U32("witness_payload_byte")
	vrt.Assume(j < l)
	vrt.Assert(out[13+j] == data.Data[b+j], "piece payload differs from bytes [begin, begin+length) of the piece")
	ev := <-w.Messages()
	up, ok := ev.(BlockUploaded)
	vrt.Assert(ok && up.Length == l, "upload counter differs from the payload bytes written")
	w.Stop()
	<-w.Done()
}

// ZZWriterPieceTwice: the same request served twice on one connection: the
// second answer is a reject frame, and only the first counts as upload.
//
//vrt:cover ZZWriterPieceTwice duplicate rejected
func ZZWriterPieceTwice() {
	conn := &vrt.Conn{Written: make(chan struct{}, 4)}
	w := New(conn, logger.New("zz"), 10, true, nil)
	go w.Run()
	data := &vrt.MemFile{Data: vrt.Bytes("piece_content", 64)}
	i, b, l := vrt.U32("index"), vrt.U32("begin"), vrt.U32("length")
	vrt.Assume(l >= 1 && b <= 64 && l <= 64-b)
	req := peerprotocol.RequestMessage{Index: i, Begin: b, Length: l}
	w.SendPiece(req, data)
	<-conn.Written
	ev := <-w.Messages()
	up, ok := ev.(BlockUploaded)
	vrt.Assert(ok && up.Length == l, "upload counter differs from the payload bytes written")
	w.SendPiece(req, data)
	<-conn.Written
	vrt.Assert(len(conn.Writes) == 2, "second answer not written")
	out := conn.Writes[1]
	vrt.Cover(true, "duplicate rejected")
	vrt.Assert(len(out) == 17 && out[3] == 13 && out[4] == 16, "duplicate request not answered with a reject frame")
	// nothing more may be reported as uploaded: the writer must be idle again
	w.SendMessage(peerprotocol.ChokeMessage{})
	uploaded := false
	select {
	case <-w.Messages():
		uploaded = true
	case <-conn.Written:
	}
	vrt.Assert(!uploaded, "a reject frame was counted as uploaded payload")
	w.Stop()
	<-w.Done()
}

// ZZRoundTrip: every fixed-layout message the writer emits is decoded by the
// project's own reader to an identical message, however the stream is
// fragmented (none / one arbitrary split / byte by byte).
//
//vrt:cover ZZRoundTrip request round trip
func ZZRoundTrip() {
	conn := &vrt.Conn{Written: make(chan struct{}, 4)}
	w := New(conn, logger.New("zz"), 10, false, nil)
	go w.Run()
	msg, id, body := zzMessage()
	w.SendMessage(msg)
	<-conn.Written
	out := conn.Writes[0]
	rc := &vrt.Conn{In: out}
	switch vrt.Choice("fragmentation", 3) {
	case 1:
		rc.OneByOne = true
	case 2:
		rc.Split = vrt.Choice("split_point", len(out)) + 1
	}
	r := peerreader.New(rc, logger.New("zz"), time.Minute, 1<<20, nil)
	go r.Run()
	var got any
	ok := false
	select {
	case got, ok = <-r.Messages():
	case <-r.Done():
	}
	if !ok {
		// the only emitted message the reader may refuse is a request for more than 16 KiB
		rq, isReq := msg.(peerprotocol.RequestMessage)
		vrt.Assert(isReq && rq.Length > 16384, "reader delivered nothing for a message the writer emitted")
		return
	}
	switch m := got.(type) {
	case peerprotocol.HaveMessage:
		vrt.Assert(id == 4 && m == msg.(peerprotocol.HaveMessage), "have does not round-trip")
	case peerprotocol.RequestMessage:
		vrt.Cover(true, "request round trip")
		want := msg.(peerprotocol.RequestMessage)
		vrt.Assert(id == 6 && (m == want || want.Length > 16384), "request does not round-trip")
	case peerprotocol.CancelMessage:
		vrt.Assert(id == 8 && m == msg.(peerprotocol.CancelMessage), "cancel does not round-trip")
	case peerprotocol.RejectMessage:
		vrt.Assert(id == 16 && m == msg.(peerprotocol.RejectMessage), "reject does not round-trip")
	case peerprotocol.AllowedFastMessage:
		vrt.Assert(id == 17 && m == msg.(peerprotocol.AllowedFastMessage), "allowed-fast does not round-trip")
	case peerprotocol.PortMessage:
		vrt.Assert(id == 9 && m == msg.(peerprotocol.PortMessage), "port does not round-trip")
	case peerprotocol.BitfieldMessage:
		vrt.Assert(id == 5 && len(m.Data) == len(body), "bitfield length does not round-trip")
		if len(body) > 0 && len(m.Data) == len(body) {
			j := vrt.Choice("witness_bitfield_byte", len(body))
			vrt.Assert(m.Data[j] == body[j], "bitfield bytes do not round-trip")
		}
	case peerprotocol.ChokeMessage:
		vrt.Assert(id == 0, "choke does not round-trip")
	case peerprotocol.UnchokeMessage:
		vrt.Assert(id == 1, "unchoke does not round-trip")
	case peerprotocol.InterestedMessage:
		vrt.Assert(id == 2, "interested does not round-trip")
	case peerprotocol.NotInterestedMessage:
		vrt.Assert(id == 3, "not-interested does not round-trip")
	case peerprotocol.HaveAllMessage:
		vrt.Assert(id == 14, "have-all does not round-trip")
	case peerprotocol.HaveNoneMessage:
		vrt.Assert(id == 15, "have-none does not round-trip")
	case peerreader.Piece:
		vrt.Assert(id == 7, "piece header does not round-trip")
	default:
		vrt.Assert(false, "reader delivered an unexpected message type")
	}
}

// zzQueuedPieces counts the piece messages waiting in the write queue.
func zzQueuedPieces(p *PeerWriter) int {
	n := 0
	for e := p.writeQueue.Front(); e != nil; e = e.Next() {
		if _, ok := e.Value.(Piece); ok {
			n++
		}
	}
	return n
}

// ZZWriterQueueCap: the real Run loop and message writer on a connection that
// accepts a frame only when the harness lets it (slow peer). Every sequence of
// 5 operations - queue an upload (distinct requests), cancel a request (queued,
// already written, or never made), choke, let the connection take one frame -
// with a limit of 1..2 queued requests per peer: the number of queued piece
// messages never exceeds the limit, the writer's counter equals the number of
// piece messages actually queued (never negative), and every piece frame that
// reaches the wire answers a request that was queued and not cancelled.
//
//vrt:cover ZZWriterQueueCap request refused at the limit
//vrt:cover ZZWriterQueueCap cancel of a request that is not queued
//vrt:cover ZZWriterQueueCap cancel of a queued request
func ZZWriterQueueCap() { zzWriterQueueCap(5) }

// ZZWriterQueueCap6: 6 operations.
func ZZWriterQueueCap6() { zzWriterQueueCap(6) }

func zzWriterQueueCap(steps int) {
	conn := &vrt.Conn{Written: make(chan struct{})}
	limit := vrt.Choice("max_queued_requests", 2) + 1
	fast := vrt.Bool("fast_extension")
	p := New(conn, logger.New("zz"), limit, fast, nil)
	go p.Run()
	vrt.Yield()
	data := vrt.MemFile{Data: make([]byte, 64)}
	next := uint32(0)
	for step := 0; step < steps; step++ {
		switch vrt.Choice("operation", 4) {
		case 0:
			full := zzQueuedPieces(p) >= limit
			vrt.Cover(full, "request refused at the limit")
			p.SendPiece(peerprotocol.RequestMessage{Index: next, Begin: 0, Length: 16}, &data)
			next++
		case 1:
			i := uint32(vrt.Choice("cancelled_request", steps))
			queued := false
			for e := p.writeQueue.Front(); e != nil; e = e.Next() {
				if pi, ok := e.Value.(Piece); ok && pi.Index == i {
					queued = true
				}
			}
			vrt.Cover(!queued, "cancel of a request that is not queued")
			vrt.Cover(queued, "cancel of a queued request")
			p.CancelRequest(peerprotocol.CancelMessage{RequestMessage: peerprotocol.RequestMessage{Index: i, Begin: 0, Length: 16}})
		case 2:
			p.SendMessage(peerprotocol.ChokeMessage{})
		case 3:
			select {
			case <-conn.Written:
			default:
			}
		}
		vrt.Yield()
		q := zzQueuedPieces(p)
		vrt.Assert(q <= limit, "more upload requests queued for one peer than the configured maximum")
		vrt.Assert(p.currentQueuedRequests >= 0, "queued request counter went negative")
		vrt.Assert(p.currentQueuedRequests == q, "queued request counter differs from the piece messages actually queued")
	}
}
