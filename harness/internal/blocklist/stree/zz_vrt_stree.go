package stree

import (
	vrt "github.com/cenkalti/rain/v2/internal/zzvrt"
)

func zzStree(maxRanges int) {
	k := vrt.Choice("num_ranges", maxRanges) + 1
	var t Stree
	var fr, to [3]ValueType
	for i := 0; i < k; i++ {
		f := ValueType(vrt.U32("from"))
		tt := ValueType(vrt.U32("to"))
		vrt.Assume(f <= tt)
		t.AddRange(f, tt)
		fr[i], to[i] = f, tt
	}
	t.Build()
	v := ValueType(vrt.U32("query"))
	got := t.Contains(v)
	want := false
	for i := 0; i < k; i++ {
		if fr[i] <= v && v <= to[i] {
			want = true
		}
	}
	vrt.Cover(got, "query inside a range")
	vrt.Cover(!got, "query outside all ranges")
	if k == 2 {
		vrt.Cover(to[0]+1 == fr[1] && to[0] < fr[1], "adjacent ranges")
		vrt.Cover(fr[0] <= fr[1] && to[1] <= to[0], "nested ranges")
		vrt.Cover(fr[0] == fr[1] && to[0] == to[1], "duplicate ranges")
	}
	vrt.Assert(got == want, "Contains differs from the union of the ranges")
}

// ZZStreeExact2: build + query with up to 2 arbitrary 32-bit ranges.
//
//vrt:cover ZZStreeExact2 query inside a range
//vrt:cover ZZStreeExact2 query outside all ranges
//vrt:cover ZZStreeExact2 adjacent ranges
//vrt:cover ZZStreeExact2 nested ranges
//vrt:cover ZZStreeExact2 duplicate ranges
func ZZStreeExact2() { zzStree(2) }

// ZZStreeExact3: up to 3 ranges (thorough tier).
func ZZStreeExact3() { zzStree(3) }

// ZZStreeEmpty: an empty tree blocks nothing; Clear + rebuild forgets old ranges.
func ZZStreeEmpty() {
	var t Stree
	t.Build()
	v := ValueType(vrt.U32("query"))
	vrt.Assert(!t.Contains(v), "empty tree contains a value")
	f := ValueType(vrt.U32("from"))
	tt := ValueType(vrt.U32("to"))
	vrt.Assume(f <= tt)
	t.AddRange(f, tt)
	t.Build()
	t.Clear()
	t.Build()
	vrt.Assert(!t.Contains(v), "cleared tree still contains a value")
	f2 := ValueType(vrt.U32("from2"))
	t2 := ValueType(vrt.U32("to2"))
	vrt.Assume(f2 <= t2)
	t.AddRange(f2, t2)
	t.Build()
	vrt.Assert(t.Contains(v) == (f2 <= v && v <= t2), "reloaded tree differs from its only range")
}
