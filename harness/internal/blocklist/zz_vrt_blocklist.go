package blocklist

import (
	"net"
	"strings"

	vrt "github.com/cenkalti/rain/v2/internal/zzvrt"
)

// ZZLoadConcrete: the loader on a concrete three-line list (comment, rule,
// blank): one rule; addresses inside 10.0.1.0/24 blocked, neighbours not.
func ZZLoadConcrete() {
	b := New()
	n, err := b.Reload(strings.NewReader("# list\n10.0.1.0/24\n\n"))
	vrt.Assert(err == nil, "reload failed")
	vrt.Assert(n == 1, "rule count wrong")
	last := vrt.U8("last_octet")
	vrt.Assert(b.Blocked(net.IP{10, 0, 1, last}), "address inside the range not blocked")
	vrt.Assert(!b.Blocked(net.IP{10, 0, 0, last}) && !b.Blocked(net.IP{10, 0, 2, last}), "address outside the range blocked")
}

func ZZDebugParse() {
	r, err := parseCIDR([]byte("10.0.1.0/24"))
	if err != nil {
		vrt.Note("err=" + err.Error())
	}
	vrt.Assert(err == nil, "parse failed")
	vrt.Assert(r.first == 0x0a000100 && r.last == 0x0a0001ff, "range wrong")
}
