package addrlist

import (
	"net"
	"strings"

	"github.com/cenkalti/rain/v2/internal/blocklist"
	"github.com/cenkalti/rain/v2/internal/peerpriority"
	"github.com/cenkalti/rain/v2/internal/peersource"
	vrt "github.com/cenkalti/rain/v2/internal/zzvrt"
)

// The canonical priority is a CRC32-C of the two addresses; the queue only
// relies on it being a function of the address. Modelled as an arbitrary
// function: a fresh arbitrary value for an address not seen before, the same
// value for an address seen before (so colliding priorities of different
// addresses are covered too).
var zzPrioSeen []zzPrio

type zzPrio struct {
	ip   [4]byte
	port int
	p    peerpriority.Priority
}

//vrt:replace github.com/cenkalti/rain/v2/internal/peerpriority.Calculate github.com/cenkalti/rain/v2/internal/addrlist.zzCalculate
func zzCalculate(a, b *net.TCPAddr) peerpriority.Priority {
	var k [4]byte
	copy(k[:], a.IP.To4())
	for _, s := range zzPrioSeen {
		if s.ip == k && s.port == a.Port {
			return s.p
		}
	}
	p := peerpriority.Priority(vrt.U32("priority"))
	zzPrioSeen = append(zzPrioSeen, zzPrio{k, a.Port, p})
	return p
}

const zzListenPort = 6881

// zzAddrInv: representation invariant of the list plus the admission filters.
func zzAddrInv(d *AddrList, max int, clientIP net.IP) {
	vrt.Assert(d.Len() <= max, "more addresses stored than the configured maximum")
	vrt.Assert(len(d.peerByTime) == d.peerByPriority.Len(), "age list and priority tree differ in size")
	counts := map[peersource.Source]int{}
	for i, p := range d.peerByTime {
		vrt.Assert(p != nil, "hole in the age list")
		if p == nil {
			return
		}
		vrt.Assert(p.index == i, "stored index of an address is stale")
		vrt.Assert(d.peerByPriority.Get(p) == p, "address in the age list is not the one stored under its priority")
		counts[p.source]++
		vrt.Assert(p.addr.Port != 0, "address with port 0 stored")
		vrt.Assert(!(p.addr.IP.IsLoopback() && p.addr.Port == zzListenPort), "own listening address stored")
		vrt.Assert(!clientIP.Equal(p.addr.IP), "own external address stored")
		ip4 := p.addr.IP.To4()
		vrt.Assert(!(ip4[0] == 10 && ip4[1] == 0 && ip4[2] == 1), "blocked address stored")
		for j := 0; j < i; j++ {
			vrt.Assert(d.peerByTime[j].priority != p.priority, "two stored addresses share a priority")
		}
	}
	for _, s := range []peersource.Source{peersource.Tracker, peersource.DHT, peersource.PEX} {
		vrt.Assert(d.LenSource(s) == counts[s], "per-source count differs from the stored addresses")
	}
}

// ZZAddrListSeq: every sequence of 4 Push (one of 3 admissible addresses with
// arbitrary - possibly colliding - priorities; two sources) / Pop
// operations on a list bounded to 1..2 addresses: never more than the maximum
// stored, the representation stays consistent (no panic), nothing that must be
// filtered is stored, per-source counts are exact, Pop returns the stored
// address of highest priority and removes exactly it.
//
//vrt:cover ZZAddrListSeq evicted at the bound
//vrt:cover ZZAddrListSeq popped
//vrt:cover ZZAddrListSeq same address pushed again
func ZZAddrListSeq() { zzAddrListSeq(4) }

// ZZAddrListSeq5: 5 operations, bound 1..3.
func ZZAddrListSeq5() { zzAddrListSeq(5) }

func zzAddrListSeq(steps int) {
	zzPrioSeen = nil
	bl := blocklist.New()
	if n, err := bl.Reload(strings.NewReader("10.0.1.0/24\n")); err != nil || n != 1 {
		panic("zz: blocklist not loaded")
	}
	max := vrt.Choice("max_items", steps-2) + 1
	clientIP := net.IP{10, 0, 0, 9}
	d := New(max, bl, zzListenPort, &clientIP)
	var pushedAddrs []*net.TCPAddr
	for step := 0; step < steps; step++ {
		if vrt.Bool("pop") {
			before := d.Len()
			var best *peerAddr
			for _, p := range d.peerByTime {
				if p == nil {
					continue // hole left by the previous Pop
				}
				if best == nil || p.priority > best.priority {
					best = p
				}
			}
			a, src := d.Pop()
			if before == 0 {
				vrt.Assert(a == nil, "Pop on an empty list returned an address")
			} else {
				vrt.Cover(true, "popped")
				vrt.Assert(a != nil && d.Len() == before-1, "Pop did not remove exactly one address")
				vrt.Assert(a == best.addr && src == best.source, "Pop did not return the stored address of highest priority")
			}
			zzAddrInvAfterPop(d, max, clientIP)
			continue
		}
		ip := net.IP{10, 0, 0, byte(1 + vrt.Choice("host", 3))}
		port := 7000
		src := peersource.DHT
		if ip[3] == 1 {
			src = peersource.Tracker
		}
		ad := &net.TCPAddr{IP: ip, Port: port}
		for _, q := range pushedAddrs {
			vrt.Cover(q.Port == port && q.IP.Equal(ip), "same address pushed again")
		}
		pushedAddrs = append(pushedAddrs, ad)
		before := d.Len()
		d.Push([]*net.TCPAddr{ad}, src)
		vrt.Cover(before == max && d.Len() == max, "evicted at the bound")
		zzAddrInv(d, max, clientIP)
	}
}

// after a Pop the age list legally contains one nil hole until the next Push
func zzAddrInvAfterPop(d *AddrList, max int, clientIP net.IP) {
	vrt.Assert(d.Len() <= max, "more addresses stored than the configured maximum")
	n := 0
	for i, p := range d.peerByTime {
		if p == nil {
			continue
		}
		n++
		vrt.Assert(p.index == i, "stored index of an address is stale")
	}
	vrt.Assert(n == d.peerByPriority.Len(), "age list and priority tree differ in size")
}

// ZZAddrListFilter: one Push of an arbitrary address (any 4 IP bytes, any port)
// into an empty list with the blocklist 10.0.1.0/24, listening port 6881 and
// client address 10.0.0.9: it is stored iff its port is non-zero, it is not
// loopback:6881, not the client's address and not blocked.
//
//vrt:cover ZZAddrListFilter stored
//vrt:cover ZZAddrListFilter blocked address refused
func ZZAddrListFilter() {
	zzPrioSeen = nil
	bl := blocklist.New()
	if n, err := bl.Reload(strings.NewReader("10.0.1.0/24\n")); err != nil || n != 1 {
		panic("zz: blocklist not loaded")
	}
	clientIP := net.IP{10, 0, 0, 9}
	d := New(2, bl, zzListenPort, &clientIP)
	b := vrt.Bytes("ip", 4)
	ip := net.IP{b[0], b[1], b[2], b[3]}
	port := int(vrt.U16("port"))
	d.Push([]*net.TCPAddr{{IP: ip, Port: port}}, peersource.Tracker)
	blocked := b[0] == 10 && b[1] == 0 && b[2] == 1
	own := (b[0] == 127 && port == zzListenPort) || (b[0] == 10 && b[1] == 0 && b[2] == 0 && b[3] == 9)
	vrt.Cover(blocked, "blocked address refused")
	if port == 0 || blocked || own {
		vrt.Assert(d.Len() == 0, "address that must be filtered was stored")
	} else {
		vrt.Cover(true, "stored")
		vrt.Assert(d.Len() == 1, "admissible address not stored")
	}
	zzAddrInv(d, 2, clientIP)
}
